"""One integer decides everything: VERIF_SEED -> per-run seeds -> random.Random."""

import hashlib
import os
import random


def verif_seed():
    try:
        return int(os.environ.get("VERIF_SEED", "0"))
    except ValueError:
        return 0


def derive(*parts):
    h = hashlib.sha256(":".join(str(p) for p in parts).encode()).digest()
    return int.from_bytes(h[:8], "big")


def run_rng(prop, index, seed=None, salt=""):
    s = derive(verif_seed() if seed is None else seed, prop, index, salt)
    return s, random.Random(s)


def weighted(rng, pairs):
    """pairs: list of (item, weight)."""
    total = sum(w for _, w in pairs)
    x = rng.random() * total
    for item, w in pairs:
        x -= w
        if x < 0:
            return item
    return pairs[-1][0]


def stable_hash(obj):
    """Hash-seed independent 61-bit hash of a JSON-able object."""
    import json

    h = hashlib.sha256(json.dumps(obj, sort_keys=True, default=str).encode()).digest()
    return int.from_bytes(h[:8], "big") & ((1 << 61) - 1)
