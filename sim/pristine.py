"""Reference outcomes computed in a process that has made no other call.

The in-process reference (common.ref_outcomes) builds a fresh *function*, but in a process whose
library-level state (module globals, memo tables keyed by value, ...) has seen every earlier
scenario of the worker. A per-worker server is forked when the worker starts, before it runs any
scenario; each request is served by a grandchild forked from that untouched image, which builds
the fresh function, makes the calls and exits. Requests are pure functions of (spec, regs, calls),
so they do not perturb replay.
"""

import os
import pickle
import struct

_server = None  # (pid, wfd, rfd)


def _read_exact(fd, n):
    buf = b""
    while len(buf) < n:
        chunk = os.read(fd, n - len(buf))
        if not chunk:
            return None
        buf += chunk
    return buf


def _send(fd, obj):
    data = pickle.dumps(obj)
    data = struct.pack(">I", len(data)) + data
    while data:
        n = os.write(fd, data)
        data = data[n:]


def _recv(fd):
    hdr = _read_exact(fd, 4)
    if hdr is None:
        return None
    (n,) = struct.unpack(">I", hdr)
    data = _read_exact(fd, n)
    return None if data is None else pickle.loads(data)


def _compute(req):
    from .common import begin_run, ref_outcomes

    begin_run()
    return [ref_outcomes(spec, regs, calls) for spec, regs, calls in req]


def _serve(rfd, wfd):
    while True:
        req = _recv(rfd)
        if req is None:
            return
        pr, pw = os.pipe()
        pid = os.fork()
        if pid == 0:
            os.close(pr)
            try:
                out = ("ok", _compute(req))
            except BaseException as e:  # noqa: BLE001
                out = ("err", repr(e)[:500])
            try:
                _send(pw, out)
            finally:
                os._exit(0)
        os.close(pw)
        res = _recv(pr)
        os.close(pr)
        os.waitpid(pid, 0)
        _send(wfd, res if res is not None else ("err", "pristine child died"))


def start(fresh=False):
    """Fork the server from the current image (call before this process runs any scenario)."""
    global _server
    if _server is not None and not fresh:
        return
    if _server is not None:
        # inherited from the parent process: not ours
        for fd in _server[1:]:
            try:
                os.close(fd)
            except OSError:
                pass
        _server = None
    r1, w1 = os.pipe()
    r2, w2 = os.pipe()
    pid = os.fork()
    if pid == 0:
        os.close(w1)
        os.close(r2)
        try:
            import faulthandler

            faulthandler.cancel_dump_traceback_later()
            _serve(r1, w2)
        finally:
            os._exit(0)
    os.close(r1)
    os.close(w2)
    _server = (pid, w1, r2)


def refs(req):
    """req: list of (spec, regs, calls) -> list of outcome lists, each call made first on a fresh
    function in an untouched process image."""
    if _server is None:
        start()
    _send(_server[1], req)
    res = _recv(_server[2])
    if res is None or res[0] != "ok":
        from .trace import HarnessError

        raise HarnessError(f"pristine reference failed: {res}")
    return res[1]
