"""Worlds: JSON specs rendered to Python source and loaded in memory.

A world is the generated *user program* around the real ovld library: a class
DAG, user type hooks, dependent-type predicates and a pool of method
definitions. Functions (Ovld objects) are created by harness operations, not
by the source, because histories differ from run to run.

Everything here is deterministic given the spec; nothing draws randomness.
"""

import itertools
import linecache
import sys
import threading
import types

WORLD_PREFIX = "<simworld:"
_world_counter = itertools.count()


def reset_process_state():
    """Make a run independent of how many runs this process did before."""
    global _world_counter
    import ovld.core
    import ovld.dependent
    import ovld.recode

    ovld.core._current_id = itertools.count()
    ovld.recode._current = itertools.count()
    ovld.dependent._current = itertools.count()
    _world_counter = itertools.count()
    # process-global lookup cache of the annotation normaliser (a TypeMap): whether a generic
    # origin has been seen before in this process must not change what a run executes
    import ovld.types

    dict.clear(ovld.types.normalize_type.generic_handlers)
    for k in [k for k in linecache.cache if k.startswith(("<ovld:", WORLD_PREFIX))]:
        del linecache.cache[k]


# --------------------------------------------------------------------------
# rendering


def ann_src(a):
    k = a[0]
    if k == "o":
        return "object"
    if k in ("c", "b"):
        return a[1]
    if k == "u":
        return " | ".join(f"({ann_src(x)})" for x in a[1])
    if k == "i":
        return "Intersection[" + ", ".join(ann_src(x) for x in a[1]) + "]"
    if k == "x":
        return f"Exactly[{a[1]}]"
    if k == "ss":
        return f"StrictSubclass[{a[1]}]"
    if k == "l":
        return "Literal[" + ", ".join(repr(v) for v in a[1]) + "]"
    if k == "d":
        return f"Dependent[{a[1]}, {a[2]}]"
    if k == "t":
        return f"type[{a[1]}]"
    if k == "h":
        return f"{a[1]}t"
    if k == "ph":
        return f"PH[{a[1]}]"
    if k == "w":
        return "Whatever"
    if k == "rk":
        return f"Rem[{a[1]}]"
    raise ValueError(a)


def value_src(v):
    k = v[0]
    if k == "n":
        kids = ", ".join(value_src(x) for x in v[3])
        return f"{v[1]}({v[2]}, [{kids}])"
    if k in ("int", "str"):
        return repr(v[1])
    if k == "T":
        return v[1]
    if k == "none":
        return "None"
    raise ValueError(v)


def _params_src(m, self_flag=False):
    parts = []
    if m.get("self") or self_flag:
        parts.append("self")
    kw_started = False
    for name, kind, ann, has_default in m["params"]:
        if kind == "kw" and not kw_started:
            parts.append("*")
            kw_started = True
        if kind == "po":
            pass
        s = f"{name}: {ann_src(ann)}" if ann is not None else name
        if has_default:
            s += " = DEFAULT"
        parts.append(s)
    # positional-only marker
    npo = sum(1 for p in m["params"] if p[1] == "po")
    if npo:
        idx = npo + (1 if (m.get("self") or self_flag) else 0)
        parts.insert(idx, "/")
    return ", ".join(parts)


def _passargs(m, optional_guard=False):
    pos = [p[0] for p in m["params"] if p[1] in ("pos", "po") and not p[3]]
    kws = [p[0] for p in m["params"] if p[1] == "kw" and not p[3]]
    return ", ".join(pos + [f"{k}={k}" for k in kws])


def method_src(mid, m, self_flag=False):
    lines = [f"def {mid}({_params_src(m, self_flag)}):"]
    lines.append(f"    LOG.append({mid!r})")
    body = m["body"]
    k = body[0]
    if self_flag and k == "fnext":
        k = "next"  # f.next() has no notion of self
    first = m["params"][0][0] if m["params"] else None
    rest = [p[0] for p in m["params"][1:] if p[1] in ("pos", "po") and not p[3]]
    if k == "leaf":
        lines.append(f"    return ({mid!r},)")
    elif k == "next":
        lines.append(f"    return ({mid!r}, call_next({_passargs(m)}))")
    elif k == "next_other":
        lines.append(f"    return ({mid!r}, call_next({value_src(body[1])}))")
    elif k == "next_try":
        # a method that tolerates being the last of its chain
        lines.append("    try:")
        lines.append(f"        r = call_next({_passargs(m)})")
        lines.append("    except TypeError:")
        lines.append("        r = 'end'")
        lines.append(f"    return ({mid!r}, r)")
    elif k == "next2":
        # two call_next sites: pre-emption can fall between them
        lines.append(f"    r1 = call_next({_passargs(m)})")
        lines.append(f"    r2 = call_next({_passargs(m)})")
        lines.append(f"    return ({mid!r}, r1, r2)")
    elif k == "rec":
        more = "".join(", " + r for r in rest)
        lines.append(
            f"    return ({mid!r}, [recurse(k{more}) for k in {first}.kids])"
        )
    elif k == "fcall":
        # recursion *by name*: FN is a module global bound to one particular function; the library
        # treats it as "this function" only in that function's own copy of the method
        more = "".join(", " + r for r in rest)
        lines.append(
            f"    return ({mid!r}, [FN(k{more}) for k in {first}.kids])"
        )
    elif k == "rec_next":
        more = "".join(", " + r for r in rest)
        lines.append(
            f"    return ({mid!r}, [recurse(k{more}) for k in {first}.kids],"
            f" call_next({_passargs(m)}))"
        )
    elif k == "fnext":
        lines.append(f"    return ({mid!r}, FN.next({_passargs(m)}))")
    elif k == "bad_next":
        lines.append("    g = call_next")
        lines.append(f"    return ({mid!r},)")
    elif k == "mut_rec":
        # the harness may change the method set from inside this body (MUT), then the body recurses
        lines.append("    MUT()")
        lines.append(f"    return ({mid!r}, [recurse(k) for k in {first}.kids])")
    elif k == "rec_leaf":
        # uses recurse (so the method is source-rewritten) but on nothing new
        lines.append(f"    return ({mid!r}, [recurse(k) for k in ()])")
    else:
        raise ValueError(body)
    return "\n".join(lines) + "\n"


HEADER = '''\
import abc as _abc
from typing import Literal
from ovld import (Dependent, Exactly, Intersection, StrictSubclass, call_next,
                  class_check, dependent_check, parametrized_class_check,
                  recurse, typeorder)
from ovld.dependent import ParametrizedDependentType
from ovld.mro import Order
from ovld.types import Whatever

DEFAULT = None
FN = None


def MUT():
    pass


def MVARARGS(*args):  # not registrable: ovld refuses *args
    return ("mvarargs",)


class _V:
    def __init__(self, tag=0, kids=()):
        self.tag = tag
        self.kids = list(kids)


class _PHh:
    def __init__(self, base):
        self.base = base
        self.__args__ = (base,)

    def __type_order__(self, other):
        HOOK("PH.order")
        h = getattr(other, "_handler", None)
        if isinstance(h, _PHh):
            return typeorder(self.base, h.base)
        return NotImplemented

    def __is_supertype__(self, other):
        HOOK("PH.super")
        return (isinstance(other, type) and not hasattr(other, "_handler")
                and issubclass(other, self.base) and other is not self.base)

    def __is_subtype__(self, other):
        return NotImplemented

    def __subclasscheck__(self, sub):
        return self.__is_supertype__(sub)

    def __instancecheck__(self, obj):
        return self.__is_supertype__(type(obj))

    def __eq__(self, other):
        return isinstance(other, _PHh) and self.base is other.base

    def __hash__(self):
        return hash(("PH", self.base.__name__))

    def __str__(self):
        return f"PH[{self.base.__name__}]"


PH = parametrized_class_check(_PHh)


class Rem(ParametrizedDependentType):
    """User-defined kind of value-dependent type: Rem[r] holds ints with v % 3 == r. Two
    different instances never hold for the same value, which is what the hint below promises."""

    exclusive_type = True

    def default_bound(self, r):
        return int

    def check(self, value):
        HOOK("Rem")
        return value % 3 == self.parameter

'''


def render(spec):
    out = [HEADER]
    markers = spec.get("markers", {})
    for name, bases, is_abc in spec["classes"]:
        b = list(bases) or ["_V"]
        body = "".join(f"    {a} = 1\n" for a in markers.get(name, [])) or "    pass\n"
        if is_abc:
            out.append(f"class {name}({', '.join(b)}, metaclass=_abc.ABCMeta):\n{body}")
        else:
            out.append(f"class {name}({', '.join(b)}):\n{body}")
    for pr in spec.get("protocols", []):
        # structural ABC: a class is a subclass iff it has the marker attribute
        out.append(
            f"class {pr['name']}(_abc.ABC):\n"
            f"    {pr['attr']} = 1\n"
            f"    @classmethod\n"
            f"    def __subclasshook__(cls, C):\n"
            f"        return hasattr(C, {pr['attr']!r})\n"
        )
    for abc_name, sub in spec.get("virtual", []):
        out.append(f"{abc_name}.register({sub})\n")
    for h in spec.get("hooks", []):
        names = tuple(h["true_for"])
        out.append(
            f"def {h['name']}(cls):\n"
            f"    HOOK({h['name']!r})\n"
            f"    return getattr(cls, '__name__', None) in {names!r}\n"
            f"{h['name']}t = class_check({h['name']})\n"
        )
    for d in spec.get("deps", []):
        out.append(
            f"@dependent_check\n"
            f"def {d['name']}(v: {d['bound']}):\n"
            f"    HOOK({d['name']!r})\n"
            f"    x = getattr(v, 'tag', None)\n"
            f"    if x is None:\n"
            f"        # plain numbers: equal values of different types (1, True, 1.0) must differ\n"
            f"        x = (int(v) if isinstance(v, (int, float)) else 0) + len(type(v).__name__)\n"
            f"    return x % {d['mod']} == {d['eq']}\n"
        )
    self_flag = bool(spec.get("meta", {}).get("self"))
    # canonical order (not dict insertion order): a spec that went through a JSON file with sorted
    # keys must render to the same source, line for line
    fact = {}
    for mid, m in sorted(spec["methods"].items()):
        if m.get("factory"):
            fact.setdefault(m["body"][0], []).append((mid, m))
        else:
            out.append(method_src(mid, m, self_flag))
    # methods made by a factory: several function objects from ONE def statement (closures)
    for kind, lst in sorted(fact.items()):
        slf = "self, " if self_flag else ""
        name = lst[0][1]["params"][0][0]
        ret = "(mid, call_next(%s))" % name if kind == "next" else "(mid,)"
        out.append(
            f"def _factory_{kind}(mid, T0):\n"
            f"    def fm({slf}{name}: T0):\n"
            f"        LOG.append(mid)\n"
            f"        return {ret}\n"
            f"    return fm\n"
        )
        for mid, m in lst:
            out.append(f"{mid} = _factory_{kind}({mid!r}, {ann_src(m['params'][0][2])})\n")
    return "\n".join(out)


# --------------------------------------------------------------------------
# run-time objects


class Log:
    """Per-thread append-only log of entered methods."""

    def __init__(self):
        self.lists = {}

    def append(self, x):
        self.lists.setdefault(threading.get_ident(), []).append(x)

    def take(self):
        return self.lists.pop(threading.get_ident(), [])


class HookState:
    """Invocation counters and fault plan of the user hooks of one world."""

    def __init__(self):
        self.counts = {}
        self.total = 0
        self.plan = []  # list of dicts {hook|None, nth, exc, sticky, fired}
        self.fired = []

    def __call__(self, name):
        self.total += 1
        n = self.counts.get(name, 0) + 1
        self.counts[name] = n
        for f in self.plan:
            if f.get("done"):
                continue
            if f.get("hook") not in (None, name):
                continue
            cnt = self.total if f.get("hook") is None else n
            if cnt >= f["nth"] and (f.get("sticky") or cnt == f["nth"]):
                if not f.get("sticky"):
                    f["done"] = True
                self.fired.append((name, cnt, f["exc"]))
                raise make_exc(f["exc"])


class SimInterrupt(BaseException):
    """Models KeyboardInterrupt: an asynchronous interrupt injected by the simulator."""


class SimFault(Exception):
    """An ordinary exception injected by the simulator (hook failure)."""


def make_exc(kind):
    if kind == "interrupt":
        return SimInterrupt("injected interrupt")
    if kind == "memory":
        return MemoryError("injected")
    if kind == "runtime":
        return SimFault("injected hook failure")
    if kind == "type":
        return TypeError("injected hook TypeError")
    if kind == "key":
        return KeyError("injected hook KeyError")
    raise ValueError(kind)


class World:
    def __init__(self, spec, source=None):
        self.spec = spec
        self.source = source if source is not None else render(spec)
        self.filename = f"{WORLD_PREFIX}{next(_world_counter)}>"
        lines = self.source.splitlines(True)
        linecache.cache[self.filename] = (len(self.source), None, lines, self.filename)
        self.mod = types.ModuleType("simworld")
        self.mod.__file__ = self.filename
        self.log = Log()
        self.hooks = HookState()
        self.mod.LOG = self.log
        self.mod.HOOK = self.hooks
        code = compile(self.source, self.filename, "exec")
        exec(code, self.mod.__dict__)
        self.funcs = {}
        self.bound_cls = {}

    # -- construction of functions ------------------------------------------
    def new_func(self, name, mixins=(), linkback=False, main=False, named=True):
        from ovld import Ovld

        ov = Ovld(mixins=[self.funcs[m] for m in mixins], linkback=linkback)
        if named:
            ov.rename(name, name)  # else: named by the library after its first registered function
        self.funcs[name] = ov
        if main:
            self.mod.FN = ov.dispatch
        return ov

    def method(self, mid):
        return getattr(self.mod, mid)

    def _mid_of_line(self):
        m = getattr(self, "_line_mid", None)
        if m is None:
            acc = {}
            for mid in sorted(self.spec.get("methods", {})):
                fn = getattr(self.mod, mid, None)
                co = getattr(fn, "__code__", None)
                if co is not None:
                    acc.setdefault(co.co_firstlineno, []).append(mid)
            m = self._line_mid = {ln: "|".join(mids) for ln, mids in acc.items()}
        return m

    def register(self, fname, mid, priority=None):
        m = self.spec["methods"][mid]
        prio = m.get("prio", 0) if priority is None else priority
        self.funcs[fname].register(self.method(mid), priority=prio)

    def unregister(self, fname, mid):
        self.funcs[fname].unregister(self.method(mid))

    def build_func(self, name, mids, main=True):
        self.new_func(name, main=main)
        for mid in mids:
            self.register(name, mid)
        return self.funcs[name]

    # -- values ---------------------------------------------------------------
    def value(self, v):
        k = v[0]
        if k == "n":
            return getattr(self.mod, v[1])(v[2], [self.value(x) for x in v[3]])
        if k in ("int", "str"):
            return v[1]
        if k == "T":
            return getattr(self.mod, v[1]) if hasattr(self.mod, v[1]) else eval(v[1])
        if k == "none":
            return None
        raise ValueError(v)

    # -- calls ----------------------------------------------------------------
    def holder(self, fname):
        """An instance of a class that has the function as an overloaded method."""
        if fname not in self.bound_cls:
            ov = self.funcs[fname]
            flavour = self.spec.get("meta", {}).get("self")
            # "ovld": the Ovld object itself is the class attribute (goes through Ovld.__get__);
            # otherwise the dispatch function, as the @ovld decorator leaves it in a class body
            attr = ov if flavour == "ovld" else ov.dispatch
            cls = type(f"Holder_{fname}", (), {"meth": attr})
            self.bound_cls[fname] = cls
        return self.bound_cls[fname]()

    def call(self, fname, c):
        """Perform corpus call ``c`` on function ``fname``; return its outcome."""
        ov = self.funcs[fname]
        args = [self.value(v) for v in c.get("args", [])]
        kw = {k: self.value(v) for k, v in c.get("kw", {}).items()}
        kind = c.get("kind", "call")
        self.log.take()
        try:
            if kind == "call" and self.spec.get("meta", {}).get("self"):
                r = self.holder(fname).meth(*args, **kw)
                return ["ok", self.log.take(), jsonable(r)]
            if kind == "call":
                # (a derived function nothing was registered on has no dispatch function before its first use)
                r = (ov.dispatch if hasattr(ov, "dispatch") else ov)(*args, **kw)
                return ["ok", self.log.take(), jsonable(r)]
            elif kind == "bound":
                r = self.holder(fname).meth(*args, **kw)
                return ["ok", self.log.take(), jsonable(r)]
            elif kind == "resolve":
                r = ov.resolve(*args)
                tok = handler_token(r)
                if tok[2]:
                    # the method's identity, not where its source happens to sit in this rendering
                    tok[2] = self._mid_of_line().get(tok[2], tok[2])
                return ["ok", self.log.take(), tok]
            elif kind == "next":
                # f.next from a non-method frame
                r = ov.next(*args)
                return ["ok", self.log.take(), jsonable(r)]
            else:
                raise ValueError(kind)
        except (Exception, SimInterrupt) as e:  # noqa: BLE001
            # (SimInterrupt too: a library that stores an injected interrupt and raises it again
            # from a later call must show up as that call's outcome)
            log = self.log.take()
            if isinstance(e, RecursionError):
                log = log[:2] + ["..."]  # depth reached depends on the caller's own stack depth
            return ["err", log, classify(e)]


def handler_token(h):
    name = getattr(h, "__name__", repr(h))
    if ".specialized_dispatch_" in name:
        name = "<dependent dispatcher>"
    elif "[" in name:
        name = name[name.index("["):]
    co = getattr(h, "__code__", None)
    fname = getattr(co, "co_filename", "")
    if fname.startswith(WORLD_PREFIX):
        return ["handler", strip_names(name), co.co_firstlineno]
    return ["handler", strip_names(name), 0]


def jsonable(r):
    if isinstance(r, (tuple, list)):
        return [jsonable(x) for x in r]
    if isinstance(r, (str, int, float, bool)) or r is None:
        return r
    return f"<{type(r).__name__}>"


import re  # noqa: E402

_ovld_file = re.compile(r"<ovld:[0-9a-f]+>")
_world_file = re.compile(r"<simworld:[0-9]+>")
_hexaddr = re.compile(r"0x[0-9a-f]+")


def strip_names(s):
    s = _ovld_file.sub("<ovld>", s)
    s = _world_file.sub("<simworld>", s)
    s = _hexaddr.sub("0x", s)
    return s


_cand = re.compile(r"^\* (?P<name>.*?)  \(priority: (?P<prio>[^,]*), specificity: (?P<spec>\[[^\]]*\])\)$")


def classify(e):
    """Normalised error kind of an exception raised by a call."""
    from ovld.utils import UsageError

    msg = str(e)
    if isinstance(e, SimFault):
        return ["injected"]
    if isinstance(e, TypeError) and msg.startswith("No method in "):
        # (the keyword arguments are listed in the order of the lookup key, which follows the order
        # in which methods declared / registered them: kept as a sorted list)
        i = msg.find("argument types [")
        body = msg[i + len("argument types "):] if i >= 0 else ""
        if body.startswith("[") and body.endswith("]"):
            body = "[" + ", ".join(sorted(body[1:-1].split(", "))) + "]"
        return ["nomethod", body]
    if isinstance(e, TypeError) and msg.startswith("Ambiguous resolution in "):
        cands = []
        for line in msg.splitlines():
            m = _cand.match(line)
            if m:
                nm = m.group("name")
                j = nm.find("[")
                cands.append([nm[j:] if j >= 0 else nm, m.group("prio")])
        cands.sort()
        return ["ambiguous", cands]
    if isinstance(e, UsageError):
        return ["config", "UsageError", strip_names(msg)[:80]]
    if isinstance(e, TypeError) and (
        "is declared in" in msg or "Some, but not all" in msg
        or "does not support" in msg
    ):
        return ["config", "TypeError", strip_names(msg)[:80]]
    if isinstance(e, OSError) and "unable to rewrite" in msg:
        return ["config", "OSError", "unable to rewrite"]
    if isinstance(e, TypeError) and ("positional argument" in msg or "keyword argument" in msg
                                     or "required keyword-only" in msg
                                     or "missing" in msg):
        # call-shape rejection by the generated entry point (parameter names sorted: they are
        # listed in declaration order)
        m2 = re.sub(r"^[\w.\[\], ]*\(\)", "()", strip_names(msg))[:100]
        names = sorted(re.findall(r"'(\w+)'", m2))
        return ["shape", re.sub(r"'\w+'", "'_'", m2) + " " + ",".join(names)]
    # internal / unexpected errors: the type only (messages may list set contents in
    # address-dependent order, e.g. graphlib.CycleError)
    return ["other", type(e).__name__]


def is_dispatch_verdict(out):
    return out[0] == "err" and out[2][0] in ("nomethod", "ambiguous")


def canon_order(o):
    """Error messages list keyword arguments in declaration order of the lookup key / entry point,
    which follows registration order; where registration order is not part of what is compared,
    compare those lists as sets."""
    if o[0] == "err" and len(o) > 2 and o[2][0] == "nomethod" and len(o[2]) > 1 and isinstance(o[2][1], str):
        body = o[2][1][1:-1] if o[2][1].startswith("[") and o[2][1].endswith("]") else o[2][1]
        return [o[0], o[1], ["nomethod", sorted(body.split(", "))]]
    if o[0] == "err" and len(o) > 2 and o[2][0] == "shape" and len(o[2]) > 1:
        names = sorted(re.findall(r"'(\w+)'", o[2][1]))
        return [o[0], o[1], ["shape", re.sub(r"'\w+'", "'_'", o[2][1]), names]]
    return o
