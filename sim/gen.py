"""Seeded generation of worlds (class DAG, hooks, methods) and call corpora.

Every draw comes from the ``rng`` passed in. "Swarm" style: sizes, enabled
annotation kinds and body kinds are themselves drawn per world from the
feature dictionary of the calling check.
"""

import copy

from .rng import weighted

BASE_FEAT = dict(
    ncls=(3, 7),
    arity=[(1, 5), (2, 3), (3, 0.6)],
    nmeth=(3, 7),
    ann={"c": 6, "o": 1.2, "u": 1.5, "x": 0.7, "h": 0.7, "d": 0.7, "i": 0.4,
         "ph": 0.4, "ss": 0.3},
    bodies={"leaf": 4, "next": 3, "rec": 1.5, "fnext": 0.5, "next2": 0.3,
            "next_other": 0.4, "rec_next": 0.4, "next_try": 0.5},
    p_kw=0.2,
    p_kw2=0.35,      # given keyword-only parameters: probability of a second one
    p_kw_meth=0.7,   # probability that a method of such a world declares each of them
    p_rem=0.12,      # int positions: probability of a user-defined exclusive dependent kind (Rem[r])
    p_kwheavy=0.0,   # worlds where every method declares two keyword-only parameters (in either order) and every call passes both
    p_optional=0.2,
    p_prio=0.3,
    p_abc=0.15,
    p_mixed_names=0.15,
    p_int_pos=0.12,
    p_type_pos=0.12,
    p_dup_sig=0.08,
    p_self=0.0,
    p_proto=0.2,
    p_zero=0.08,     # a zero-argument method (and single parameters may then be optional)
    p_factory=0.15,  # some one-parameter methods are closures made by one factory def  # probability that the world has structural ABCs (subclass iff a marker attribute exists)  # probability that the function is an overloaded *method* (all methods take self)
    ncorpus=(4, 8),
    swarm_drop=0.35,  # probability to disable each optional kind in a world
)


def feat(**over):
    f = copy.deepcopy(BASE_FEAT)
    for k, v in over.items():
        if isinstance(v, dict) and isinstance(f.get(k), dict):
            f[k].update(v)
        else:
            f[k] = v
    return f


def _mro_ok(bases_map, name, bases):
    """Check C3 linearisation succeeds using throw-away classes."""
    built = {}
    try:
        for n, bs in bases_map.items():
            built[n] = type(n, tuple(built[b] for b in bs) or (object,), {})
        type(name, tuple(built[b] for b in bases) or (object,), {})
        return True
    except TypeError:
        return False


def gen_classes(rng, f):
    n = rng.randint(*f["ncls"])
    classes = []
    bases_map = {}
    anc = {}
    for i in range(n):
        name = f"K{i}"
        if i == 0 or rng.random() < 0.15:
            bases = []
        else:
            k = 2 if (i >= 2 and rng.random() < 0.3) else 1
            bases = rng.sample([c[0] for c in classes], min(k, len(classes)))
            if len(bases) == 2:
                a, b = bases
                if a in anc[b] or b in anc[a] or not _mro_ok(bases_map, name, bases):
                    bases = [a]
        is_abc = rng.random() < f["p_abc"]
        classes.append([name, bases, is_abc])
        bases_map[name] = bases
        anc[name] = set(bases).union(*[anc[b] for b in bases]) if bases else set()
    virtual = []
    import abc as _abc

    built = {}
    for name, bases, is_abc in classes:
        bs = tuple(built[b] for b in bases) or (object,)
        built[name] = _abc.ABCMeta(name, bs, {}) if is_abc else type(name, bs, {})
    for name, bases, is_abc in classes:
        if is_abc and rng.random() < 0.6:
            cands = [c[0] for c in classes if c[0] != name and name not in anc[c[0]]
                     and c[0] not in anc[name]]
            if cands:
                sub = rng.choice(cands)
                try:
                    built[name].register(built[sub])
                except (RuntimeError, TypeError):
                    continue
                virtual.append([name, sub])
    return classes, virtual, anc


def gen_ann(rng, kinds, names, hooks, deps, depth=0):
    k = weighted(rng, list(kinds.items()))
    if k == "c":
        return ["c", rng.choice(names)]
    if k == "o":
        return ["o"]
    if k == "u" and depth == 0 and len(names) >= 2:
        parts = rng.sample(names, rng.randint(2, min(3, len(names))))
        anns = [["c", p] for p in parts]
        if hooks and "h" in kinds and rng.random() < 0.2:
            anns[-1] = ["h", rng.choice(hooks)]
        return ["u", anns]
    if k == "i" and depth == 0 and len(names) >= 2:
        parts = rng.sample(names, 2)
        anns = [["c", p] for p in parts]
        if deps and "d" in kinds and rng.random() < 0.3:
            d = rng.choice(deps)
            anns[-1] = ["d", anns[-1][1], d]
            if len(deps) >= 2 and rng.random() < 0.5:
                # both members value-dependent (their checking code is combined)
                anns[0] = ["d", anns[0][1], [x for x in deps if x != d][0]]
        return ["i", anns]
    if k == "x":
        return ["x", rng.choice(names)]
    if k == "ss":
        return ["ss", rng.choice(names)]
    if k == "h" and hooks:
        return ["h", rng.choice(hooks)]
    if k == "ph":
        return ["ph", rng.choice(names)]
    if k == "d" and deps:
        if hooks and rng.random() < 0.25:
            # value-dependent type whose *bound* is a user class predicate
            return ["d", rng.choice(hooks) + "t", rng.choice(deps)]
        return ["d", rng.choice(names), rng.choice(deps)]
    if k == "w":
        return ["w"]
    return ["c", rng.choice(names)]


def gen_world(rng, f):
    classes, virtual, anc = gen_classes(rng, f)
    names = [c[0] for c in classes]
    drop = f["swarm_drop"]
    kinds = {k: w for k, w in f["ann"].items() if k in ("c",) or rng.random() >= drop}
    kwheavy = rng.random() < f["p_kwheavy"]
    if kwheavy:
        kinds["d"] = f["ann"].get("d", 1.0)
    bodies = {k: w for k, w in f["bodies"].items() if k in ("leaf",) or rng.random() >= drop}
    hooks = []
    if "h" in kinds:
        for i in range(rng.randint(1, 2)):
            hooks.append({"name": f"H{i}",
                          "true_for": sorted(rng.sample(names, rng.randint(1, max(1, len(names) // 2))))})
    deps = []
    if "d" in kinds:
        for i in range(rng.randint(1, 2)):
            mod = rng.choice([2, 3])
            deps.append({"name": f"P{i}", "bound": "object", "mod": mod, "eq": rng.randrange(mod)})
    hook_names = [h["name"] for h in hooks]
    dep_names = [d["name"] for d in deps]
    protocols, markers = [], {}
    if rng.random() < f.get("p_proto", 0):
        nprot = rng.randint(1, 2)
        for i in range(nprot):
            # two protocols may test the same attribute: they are then subclasses of each other
            attr = "q0" if (i == 0 or rng.random() < 0.5) else "q1"
            protocols.append({"name": f"S{i}", "attr": attr})
        for attr in sorted({p["attr"] for p in protocols}):
            for nm in rng.sample(names, rng.randint(1, max(1, len(names) // 2))):
                markers.setdefault(nm, []).append(attr)
    ann_names = names + [p["name"] for p in protocols]

    max_ar = weighted(rng, f["arity"])
    min_ar = max_ar if rng.random() < 0.6 else max(1, max_ar - 1)
    flavour = ["cls"] * max_ar
    for p in range(max_ar):
        r = rng.random()
        if r < f["p_int_pos"]:
            flavour[p] = "int"
        elif r < f["p_int_pos"] + f["p_type_pos"]:
            flavour[p] = "type"
    mixed = rng.random() < f["p_mixed_names"]
    has_kw = rng.random() < f["p_kw"]
    kw_flavour = "type" if rng.random() < 0.15 else "cls"
    has_kw2 = has_kw and rng.random() < f["p_kw2"]
    p_kw_meth = f["p_kw_meth"]
    kw_names = names
    if kwheavy:
        has_kw = has_kw2 = True
        kw_flavour = "cls"
        p_kw_meth = 1.0
        # keyword annotations come from one inheritance chain, so that methods often dominate each
        # other through their keyword types alone
        leaf = max(names, key=lambda nm: (len(anc[nm]), nm))
        kw_names = sorted(anc[leaf] | {leaf})
        plain_pos = rng.random() < 0.6
    use_prio = rng.random() < f["p_prio"]

    def pos_ann(p):
        fl = flavour[p]
        if fl == "int":
            r = rng.random()
            if rng.random() < f.get("p_rem", 0):
                return ["rk", rng.randrange(3)]
            if rng.random() < 0.1:
                # one method wants a class object here: the position is then keyed with the finer
                # "subtler type" for every call, plain numbers included
                return ["t", rng.choice(names + ["object", "int"])]
            if r < 0.5:
                vals = sorted(rng.sample(range(4), rng.randint(1, 2)))
                return ["l", vals]
            if r < 0.65 and dep_names:
                return ["d", rng.choice(["object", "int", "float"]), rng.choice(dep_names)]
            if r < 0.85:
                return ["b", rng.choice(["int", "int", "float", "bool"])]
            return ["o"]
        if fl == "type":
            r = rng.random()
            if r < 0.7:
                return ["t", rng.choice(names)]
            return ["t", "object"] if r < 0.85 else ["o"]
        a = gen_ann(rng, kinds, names, hook_names, dep_names)
        if protocols and a[0] == "c" and rng.random() < 0.3:
            a = ["c", rng.choice(ann_names[len(names):])]
        return a

    methods = {}
    nmeth = rng.randint(*f["nmeth"])
    seen = set()
    for i in range(nmeth):
        mid = f"m{i}"
        ar = rng.randint(min_ar, max_ar)
        params = []
        for p in range(ar):
            nm = f"a{p}" if not (mixed and rng.random() < 0.5) else f"b{p}"
            params.append([nm, "pos", ["o"] if (kwheavy and plain_pos) else pos_ann(p), False])
        if ar >= 2 and rng.random() < f["p_optional"]:
            params[-1][3] = True
        if has_kw and rng.random() < p_kw_meth:
            if kw_flavour == "type":
                kann = ["t", rng.choice(names + ["object"])] if rng.random() < 0.75 else ["o"]
            else:
                kann = ["c", rng.choice(kw_names)] if rng.random() < 0.7 else ["o"]
                if dep_names and rng.random() < 0.3:
                    kann = ["d", rng.choice(kw_names), rng.choice(dep_names)]
            params.append(["k0", "kw", kann, rng.random() < 0.4])
        if has_kw2 and rng.random() < p_kw_meth:
            # a second keyword-only parameter, declared before or after k0 depending on the method
            k1 = ["k1", "kw", ["c", rng.choice(kw_names)] if rng.random() < 0.7 else ["o"],
                  rng.random() < 0.4]
            if dep_names and kw_flavour != "type" and rng.random() < (0.5 if kwheavy else 0.3):
                k1[2] = ["d", rng.choice(kw_names), rng.choice(dep_names)]
            if params and params[-1][1] == "kw" and rng.random() < 0.5:
                params.insert(len(params) - 1, k1)
            else:
                params.append(k1)
        prio = rng.choice([-1, 1, 2]) if (use_prio and rng.random() < 0.4) else 0
        sigkey = (repr([p[2] for p in params]), prio)
        if sigkey in seen and rng.random() >= f["p_dup_sig"]:
            # avoid accidental duplicate signatures: vary priority
            prio = prio + 3 + i
            sigkey = (sigkey[0], prio)
        seen.add(sigkey)
        opts = dict(bodies)
        first_cls = flavour[0] == "cls"
        if not first_cls:
            opts.pop("rec", None)
            opts.pop("rec_next", None)
            opts.pop("fcall", None)
        if ar != 1 or any(p[1] == "kw" for p in params) or not first_cls:
            opts.pop("next_other", None)
        body = [weighted(rng, list(opts.items()))]
        if body[0] == "next_other":
            body.append(["n", rng.choice(names), rng.randrange(4), []])
        methods[mid] = {"params": params, "prio": prio, "body": body}
    if min_ar == 1 and not mixed and rng.random() < f.get("p_factory", 0):
        elig = [mid for mid, m in methods.items()
                if len(m["params"]) == 1 and m["params"][0][1] == "pos" and not m["params"][0][3]
                and m["params"][0][0] == "a0" and m["body"][0] in ("next", "leaf")]
        for mid in rng.sample(elig, min(len(elig), rng.randint(2, 3))):
            methods[mid]["factory"] = True
    if rng.random() < f.get("p_zero", 0):
        # zero-argument method; goes last so that "the first method" always has a parameter
        for m in methods.values():
            if len(m["params"]) == 1 and m["params"][0][1] == "pos" and not m.get("factory") \
                    and m["body"][0] == "leaf" and rng.random() < 0.5:
                m["params"][0][3] = True
        methods["mz"] = {"params": [], "prio": 0, "body": ["leaf"]}
        min_ar = 0
    spec = {
        "classes": classes, "virtual": virtual, "hooks": hooks, "deps": deps,
        "protocols": protocols, "markers": markers,
        "methods": methods,
        "meta": {"min_ar": min_ar, "max_ar": max_ar, "flavour": flavour,
                 "has_kw": has_kw, "has_kw2": has_kw2, "mixed": mixed, "kw_flavour": kw_flavour,
                 "kwheavy": kwheavy, "kw_names": kw_names if kwheavy else None,
                 "alias_values": rng.random() < f["p_alias"] if f.get("p_alias") else False,
                 "self": (rng.choice(["func", "ovld"]) if rng.random() < f["p_self"] else None)},
    }
    return spec


def gen_value(rng, spec, fl, depth=0):
    names = [c[0] for c in spec["classes"]]
    if fl == "int":
        return ["int", rng.choice([0, 1, 2, 3, 4, 0, 1, 2, True, False, 1.0, 2.0, 0.0])]
    if fl == "type":
        extra = ["list[int]", "dict[str, int]"] if spec["meta"].get("alias_values") else []
        return ["T", rng.choice(names + ["object", "int"] + extra)]
    kids = []
    if depth < 2 and rng.random() < 0.3:
        kids = [gen_value(rng, spec, "cls", depth + 1) for _ in range(rng.randint(1, 2))]
    return ["n", rng.choice(names), rng.randrange(4), kids]


def gen_call(rng, spec, odd_shapes=True):
    meta = spec["meta"]
    n = rng.randint(meta["min_ar"], meta["max_ar"])
    if odd_shapes and rng.random() < 0.06:
        n = rng.choice([max(0, meta["min_ar"] - 1), meta["max_ar"] + 1])
    args = []
    for p in range(n):
        fl = meta["flavour"][p] if p < len(meta["flavour"]) else "cls"
        r = rng.random()
        if r < 0.05:
            fl = rng.choice(["cls", "int"])
        elif r < 0.09 and fl == "cls":
            fl = "type"  # a class object where instances are expected
        elif r < 0.15 and fl == "int":
            fl = "type"
        elif r < 0.22 and fl == "type":
            fl = "int"  # a plain value where class objects are expected (1, True and 1.0 are equal, not the same)
        args.append(gen_value(rng, spec, fl))
    c = {"args": args}
    if not meta.get("mixed") and args and n == meta["max_ar"] and rng.random() < 0.08 \
            and not meta.get("self"):
        # the last positional argument by keyword (documented to work when all methods use the
        # same positional names)
        c["kw"] = {f"a{n - 1}": args[-1]}
        c["args"] = args[:-1]
    heavy = meta.get("kwheavy") and rng.random() < 0.9
    if meta["has_kw"] and (rng.random() < 0.6 or heavy):
        c.setdefault("kw", {})["k0"] = gen_value(rng, spec, meta.get("kw_flavour", "cls"))
        if heavy and rng.random() < 0.7:
            c["kw"]["k0"] = ["n", rng.choice(meta["kw_names"]), rng.randrange(4), []]
    if meta.get("has_kw2") and (rng.random() < 0.6 or heavy):
        kw = c.setdefault("kw", {})
        kw["k1"] = gen_value(rng, spec, "cls")
        if heavy and rng.random() < 0.7:
            kw["k1"] = ["n", rng.choice(meta["kw_names"]), rng.randrange(4), []]
        if rng.random() < 0.5:  # keyword order at the call site varies too
            c["kw"] = dict(reversed(list(kw.items())))
    return c


def gen_corpus(rng, spec, f, n=None):
    n = n or rng.randint(*f["ncorpus"])
    out = []
    seen = set()
    tries = 0
    while len(out) < n and tries < 5 * n:
        tries += 1
        c = gen_call(rng, spec)
        k = repr(c)
        if k in seen:
            continue
        seen.add(k)
        out.append(c)
    return out


def extra_class(spec, name="KX"):
    """A class unrelated to every other class and to every corpus value."""
    if not any(c[0] == name for c in spec["classes"]):
        spec["classes"].append([name, [], False])
    return name
