"""Process hygiene: fixed hash seed, seam guard on, ovld imported from /repo/src.

Every entry point calls ``ensure_env()`` first. It re-execs the interpreter once
so that PYTHONHASHSEED, OVLD_VERIF and (best effort) ASLR-off hold for the whole
process, then makes sure the *working tree* of /repo is what gets imported.
"""

import os
import shutil
import sys

REPO = os.environ.get("VERIF_REPO", "/repo")
SRC = os.path.join(REPO, "src")
VERIF = os.path.dirname(os.path.dirname(os.path.abspath(__file__)))
MARK = "VERIF_BOOTSTRAPPED"


def _install_lock_shim():
    # minimal copy of the import-time part of sim.trace.install_lock_shim: trace.py imports
    # ovld paths from this module, so the shim has to be reachable before ovld is imported.
    import importlib

    tr = importlib.import_module("sim.trace")
    tr.install_lock_shim()


def ensure_env(hashseed="0", aslr_off=True):
    if os.environ.get(MARK) != "1":
        env = dict(os.environ)
        env[MARK] = "1"
        env["PYTHONHASHSEED"] = env.get("VERIF_HASHSEED", hashseed)
        env["OVLD_VERIF"] = "1"
        env["PYTHONDONTWRITEBYTECODE"] = "1"
        env["PYTHONPATH"] = SRC + os.pathsep + VERIF
        argv = [sys.executable] + sys.argv
        setarch = shutil.which("setarch")
        if aslr_off and setarch and env.get("VERIF_ASLR", "off") == "off":
            # belt and braces: the order seam already canonicalises every order
            # behaviour can depend on.
            probe = os.system(f"{setarch} -R true >/dev/null 2>&1")
            if probe == 0:
                argv = [setarch, "-R"] + argv
        sys.stdout.flush()
        sys.stderr.flush()
        os.execvpe(argv[0], argv, env)
    if SRC not in sys.path[:2]:
        sys.path.insert(0, SRC)
    if VERIF not in sys.path:
        sys.path.insert(1, VERIF)
    _install_lock_shim()
    import ovld

    real = os.path.realpath(ovld.__file__)
    if not real.startswith(os.path.realpath(SRC) + os.sep):
        print(f"HARNESS-ERROR: ovld imported from {real}, not from {SRC}")
        sys.exit(2)
    from ovld import _verif

    if not _verif.ACTIVE:
        print("HARNESS-ERROR: OVLD_VERIF seam is not active")
        sys.exit(2)
    return ovld
