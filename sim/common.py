"""Shared pieces: a single-function harness, reference (fresh-build) outcomes,
the source-read fault shim."""

import inspect as _inspect
import json

from .world import World, classify, reset_process_state


class _InspectShim:
    """Stands in for the ``inspect`` module as seen from ovld.recode."""

    def __init__(self):
        self.fail_names = set()
        self.fired = 0

    def __getattr__(self, name):
        return getattr(_inspect, name)

    def getsource(self, fn):
        if self.fail_names and getattr(fn, "__name__", None) in self.fail_names:
            self.fired += 1
            raise OSError("could not get source code (injected)")
        return _inspect.getsource(fn)


source_shim = _InspectShim()


def install_source_shim():
    import ovld.recode

    if ovld.recode.inspect is not source_shim:
        ovld.recode.inspect = source_shim
    return source_shim


def uses_fnext(spec, regs):
    return any(spec["methods"][r[0]]["body"][0] == "fnext" for r in regs)


class Harness:
    """One world and one function "f" under test, driven by JSON operations."""

    def __init__(self, spec, regs=(), world=None, fname="f"):
        self.spec = spec
        self.w = world or World(spec)
        self.fname = fname
        self.w.new_func(fname, main=True)
        for r in regs:
            self.register(r[0], r[1] if len(r) > 1 else None)

    @property
    def ov(self):
        return self.w.funcs[self.fname]

    def register(self, mid, prio=None):
        self.w.register(self.fname, mid, prio)

    def unregister(self, mid):
        self.w.unregister(self.fname, mid)

    def apply(self, op):
        k = op["op"]
        if k == "call":
            return self.w.call(self.fname, op["c"])
        try:
            if k == "register":
                self.register(op["mid"], op.get("prio"))
            elif k == "unregister":
                self.unregister(op["mid"])
            else:
                raise ValueError(k)
            return ["ok"]
        except Exception as e:  # noqa: BLE001
            return ["err", [], classify(e)]

    def probes(self, corpus):
        return [self.w.call(self.fname, c) for c in corpus]


_ref_cache = {}


def ref_outcomes(spec, regs, corpus, cache_key=None):
    """Outcome of each corpus call as the FIRST call on a freshly built function."""
    key = None
    if cache_key is not None:
        key = (cache_key, json.dumps(regs), json.dumps(corpus, sort_keys=True))
        if key in _ref_cache:
            return _ref_cache[key]
    out = []
    if uses_fnext(spec, regs):
        for c in corpus:
            h = Harness(spec, regs)
            out.append(h.w.call("f", c))
    else:
        w = World(spec)
        for i, c in enumerate(corpus):
            h = Harness(spec, regs, world=w, fname=f"r{i}")
            out.append(w.call(f"r{i}", c))
    if key is not None:
        if len(_ref_cache) > 2000:
            _ref_cache.clear()
        _ref_cache[key] = out
    return out


def model_apply(regs, op):
    """Method-table model: list of [mid, prio] in registration order."""
    regs = [list(r) for r in regs]
    if op["op"] == "register":
        regs.append([op["mid"], op.get("prio")])
    elif op["op"] == "unregister":
        regs = [r for r in regs if r[0] != op["mid"]]
    return regs


def begin_run():
    from . import order

    reset_process_state()
    order.controller.reset()
    source_shim.fail_names = set()
    source_shim.fired = 0


def sigkey(spec, mid, prio=None):
    """Key under which the library considers two methods to have the *identical* signature:
    parameter types, kinds and defaults and the priority - positional parameter names are not
    part of it (keyword-only names are)."""
    import json as _json

    m = spec["methods"][mid]
    p = m.get("prio", 0) if prio is None else prio
    return _json.dumps([[(q[0] if q[1] == "kw" else None, q[1] if q[1] == "kw" else "pos", q[2], q[3])
                         for q in m["params"]], p])
