"""Seam 3: iteration order of the library's internal sets.

Canonical mode sorts every set by a stable, address-free key, so that two
worlds built from the same spec iterate identically. Permuting mode (C06)
applies a recorded permutation of the canonical list at each site visit.
"""

from ovld import _verif


def _type_key(t):
    try:
        s = str(t)
    except Exception:  # noqa: BLE001
        s = "?"
    return (type(t).__name__, getattr(t, "__module__", "") or "", s)


class Controller:
    def __init__(self):
        self.reset()

    def reset(self):
        self.seq = {}  # id(obj) -> sequence number (first sight), obj kept alive
        self.keep = []
        self.visits = {}
        self.effective = {}  # site -> visits with >= 2 items
        self.ties = 0
        self.permute = None  # None (canonical) or callable(site, visit, n) -> index list or None
        self.applied = []  # recorded [site, visit, perm]
        self.script = None  # dict (site, visit) -> perm for replay

    def _seqno(self, obj):
        i = id(obj)
        if i not in self.seq:
            self.seq[i] = len(self.seq)
            self.keep.append(obj)
        return self.seq[i]

    def key(self, site, x):
        if site == "typemap.handlers":
            if isinstance(x, tuple) and len(x) == 2 and hasattr(x[1], "tiebreak"):
                h, sig = x
                pr, tb = -(sig.priority or 0), -sig.tiebreak
            else:  # TypeMap used directly (e.g. normalize_type's generic handlers)
                h, pr, tb = x, 0, 0
            co = getattr(h, "__code__", None)
            return (
                getattr(h, "__name__", ""),
                getattr(co, "co_filename", ""),
                getattr(co, "co_firstlineno", 0),
                pr,
                tb,
            )
        if site == "mro.candidates":
            co = getattr(x, "__code__", None)
            return (
                getattr(x, "__name__", ""),
                getattr(co, "co_firstlineno", 0),
                self.seq.get(id(x), 1 << 30),
            )
        return _type_key(x)

    def __call__(self, site, items):
        # the controller itself calls str() on library types: keep that out of the simulated
        # execution (no logical steps, no yield points, no crash points inside the harness)
        import sys

        old = sys.gettrace()
        if old is None:
            return self._order(site, items)
        sys.settrace(None)
        try:
            return self._order(site, items)
        finally:
            sys.settrace(old)

    def _order(self, site, items):
        items = list(items)
        n = len(items)
        v = self.visits[site] = self.visits.get(site, 0) + 1
        if n < 2:
            if site == "typemap.handlers":
                for x in items:
                    self._seqno(x[0] if isinstance(x, tuple) else x)
            return items
        keyed = [(self.key(site, x), x) for x in items]
        keyed.sort(key=lambda kx: kx[0])
        for a, b in zip(keyed, keyed[1:]):
            if a[0] == b[0]:
                self.ties += 1
        out = [x for _, x in keyed]
        if site == "typemap.handlers":
            for x in out:
                self._seqno(x[0] if isinstance(x, tuple) else x)
        self.effective[site] = self.effective.get(site, 0) + 1
        perm = None
        if self.script is not None:
            perm = self.script.get((site, v))
        elif self.permute is not None:
            perm = self.permute(site, v, n)
        if perm is not None and len(perm) == n and sorted(perm) == list(range(n)):
            if perm != list(range(n)):
                self.applied.append([site, v, perm])
            out = [out[i] for i in perm]
        return out


controller = Controller()


def install():
    _verif.controller = controller
    return controller


def make_permuter(rng):
    def permute(site, visit, n):
        k = rng.randrange(4)
        if k == 0:
            return None
        if k == 1:
            return list(range(n - 1, -1, -1))
        if k == 2:
            r = rng.randrange(1, n)
            return list(range(r, n)) + list(range(r))
        p = list(range(n))
        rng.shuffle(p)
        return p

    return permute
