"""Batch driver shared by all checks: seeded jobs on forked workers, violation
classification, shrinking, replay verification, known-findings matching,
determinism self-test and evidence."""

import argparse
import concurrent.futures as cf
import faulthandler
import hashlib
import json
import multiprocessing
import os
import subprocess
import sys
import time
import traceback

from . import order
from .bootstrap import VERIF
from .rng import verif_seed

EXIT_OK, EXIT_VIOLATION, EXIT_HARNESS = 0, 1, 2
# scratch runs (sensitivity self-tests, seeded mutants) must not overwrite committed evidence
EVIDENCE_DIR = os.environ.get("VERIF_EVIDENCE_DIR", os.path.join(VERIF, "evidence"))
REPLAY_DIR = os.environ.get("VERIF_REPLAY_DIR", os.path.join(VERIF, "replays"))
_PROP = None


def _worker_init(prop_name):
    global _PROP
    import importlib

    _PROP = importlib.import_module(f"sim.props.{prop_name}")
    order.install()
    if getattr(_PROP, "USE_PRISTINE", False):
        from . import pristine

        pristine.start(fresh=True)  # before this worker runs anything


def _worker_run(job, timeout):
    faulthandler.dump_traceback_later(timeout, exit=True)
    try:
        t0 = time.time()
        res = _PROP.run_job(job)
        res["wall"] = time.time() - t0
        res["job"] = job
        return res
    except BaseException as e:  # noqa: BLE001
        return {"job": job, "harness_error": "".join(traceback.format_exception(e))[-4000:]}
    finally:
        faulthandler.cancel_dump_traceback_later()


def merge_stats(agg, st):
    for k, v in st.items():
        if isinstance(v, (int, float)):
            agg[k] = agg.get(k, 0) + v
        elif isinstance(v, dict):
            merge_stats(agg.setdefault(k, {}), v)
        elif isinstance(v, list):
            # lists are sets of hashable items (distinct measures)
            s = agg.setdefault(k, set())
            for x in v:
                s.add(tuple(x) if isinstance(x, list) else x)
    return agg


def load_known(prop_id):
    path = os.path.join(VERIF, "known_findings.json")
    if not os.path.exists(path):
        return []
    data = json.load(open(path))
    return [e for e in data.get("findings", []) if e.get("property") == prop_id]


def sig_matches(entry_sig, sig):
    for k, v in entry_sig.items():
        if isinstance(v, list):
            if sig.get(k) not in v:
                return False
        elif sig.get(k) != v:
            return False
    return True


def shrink(prop, scenario, violation, budget_s=60.0):
    """Greedy delta debugging: accept any smaller scenario with the same violation class."""
    t0 = time.time()
    vclass = prop.vclass(scenario, violation)
    cur, curv = scenario, violation
    size0 = prop.size(scenario)
    improved = True
    tried = 0
    while improved and time.time() - t0 < budget_s:
        improved = False
        for cand in prop.shrink_moves(cur):
            if time.time() - t0 > budget_s:
                break
            tried += 1
            try:
                r = prop.execute(cand)
            except Exception:  # noqa: BLE001
                continue
            v = r.get("violation")
            if v and prop.vclass(cand, v) == vclass:
                cur, curv = cand, v
                improved = True
                break
    cur = dict(cur)
    cur["minimised_from"] = size0
    cur["minimised_to"] = prop.size(cur)
    cur["shrink_tried"] = tried
    return cur, curv


def replay_in_fresh_process(prop_id, path, hashseed="0"):
    env = dict(os.environ)
    for k in ("VERIF_BOOTSTRAPPED", "PYTHONHASHSEED"):
        env.pop(k, None)
    env["VERIF_HASHSEED"] = hashseed
    p = subprocess.run(
        [sys.executable, os.path.join(VERIF, "check.py"), prop_id, "--replay", path],
        env=env, capture_output=True, text=True, timeout=600, cwd=VERIF,
    )
    return p.returncode, p.stdout + p.stderr


def do_replay(prop, path):
    order.install()
    rec = json.load(open(path))
    if "job" in rec and "scenario" not in rec:
        res = prop.run_job(rec["job"])
        want = rec["violation"].get("clause")
        hits = [v for _, v in res.get("violations", []) if v.get("clause") == want]
        print(f"REPLAY property={prop.ID} unit=job violations_in_job={res.get('nviolations', 0)} "
              f"same_clause={len(hits)}")
        if hits:
            print("observed:", json.dumps(hits[0], sort_keys=True)[:2000])
            print("JOB-REPLAY-VIOLATION")
            print(f"VIOLATION property={prop.ID} replay={path}")
            return EXIT_VIOLATION
        return EXIT_OK
    r = prop.execute(rec["scenario"])
    v = r.get("violation")
    print(f"REPLAY property={prop.ID} digest={r.get('digest')} "
          f"violation={'yes' if v else 'no'} clause={(v or {}).get('clause')}")
    if v:
        print("observed:", json.dumps(v, sort_keys=True)[:2000])
        same = (v.get("clause") == rec["violation"].get("clause")
                and r.get("digest") == rec.get("digest"))
        print(f"REPLAY-MATCHES-RECORD={'yes' if same else 'no'}")
        print(f"VIOLATION property={prop.ID} replay={path}")
        return EXIT_VIOLATION
    return EXIT_OK


def digest_jobs(prop, jobs):
    order.install()
    out = []
    for job in jobs:
        res = prop.run_job(job)
        out.append(res.get("digest"))
    print("DIGESTS " + json.dumps(out))
    return EXIT_OK


def determinism_selftest(prop, jobs, digests, nworkers):
    """Re-run sample jobs in a fresh interpreter under another hash seed with ASLR on."""
    env = dict(os.environ)
    for k in ("VERIF_BOOTSTRAPPED", "PYTHONHASHSEED"):
        env.pop(k, None)
    env["VERIF_HASHSEED"] = "4242"
    env["VERIF_ASLR"] = "on"
    p = subprocess.run(
        [sys.executable, os.path.join(VERIF, "check.py"), prop.ID, "--digest-jobs",
         json.dumps(jobs)],
        env=env, capture_output=True, text=True, timeout=900, cwd=VERIF,
    )
    for line in p.stdout.splitlines():
        if line.startswith("DIGESTS "):
            other = json.loads(line[len("DIGESTS "):])
            return other == digests, other
    return False, p.stdout[-2000:] + p.stderr[-2000:]


def main(prop, argv=None):
    ap = argparse.ArgumentParser()
    ap.add_argument("--tier", default=os.environ.get("VERIF_TIER", "quick"))
    ap.add_argument("--replay")
    ap.add_argument("--digest-jobs")
    ap.add_argument("--budget", type=float, default=None)
    ap.add_argument("--workers", type=int, default=int(os.environ.get("VERIF_WORKERS", "16")))
    ap.add_argument("--no-selftest", action="store_true")
    ap.add_argument("--max-jobs", type=int, default=None)
    args = ap.parse_args(argv)
    order.install()
    if args.replay:
        return do_replay(prop, args.replay)
    if args.digest_jobs:
        spec = args.digest_jobs
        if spec.startswith("@"):  # job list in a file (too long for an argument)
            with open(spec[1:]) as fh:
                spec = fh.read()
        return digest_jobs(prop, json.loads(spec))

    tier = args.tier if args.tier in ("quick", "thorough") else "quick"
    seed = verif_seed()
    budget = args.budget
    if budget is None:
        budget = float(os.environ.get("VERIF_BUDGET_S", prop.BUDGET[tier]))
    t0 = time.time()
    print(f"check {prop.ID} tier={tier} VERIF_SEED={seed} budget_s={budget} workers={args.workers}")
    sys.stdout.flush()

    jobs_iter = iter(prop.jobs(tier, seed))
    agg = {}
    violations = []  # (scenario, violation)
    nviol = 0
    job_digests = []
    harness_errors = []
    njobs = 0
    job_timeout = int(max(120, min(budget, 1800)))
    ctx = multiprocessing.get_context("fork")
    pending = set()
    exhausted = False
    with cf.ProcessPoolExecutor(max_workers=args.workers, mp_context=ctx,
                                initializer=_worker_init, initargs=(prop.NAME,)) as ex:
        try:
            while True:
                while (not exhausted and len(pending) < args.workers * 2
                       and time.time() - t0 < budget
                       and (args.max_jobs is None or njobs < args.max_jobs)):
                    try:
                        job = next(jobs_iter)
                    except StopIteration:
                        exhausted = True
                        break
                    pending.add(ex.submit(_worker_run, job, job_timeout))
                    njobs += 1
                if not pending:
                    break
                done, pending = cf.wait(pending, timeout=job_timeout + 30,
                                        return_when=cf.FIRST_COMPLETED)
                if not done:
                    harness_errors.append("no worker progress (hang)")
                    break
                for fut in done:
                    res = fut.result()
                    if "harness_error" in res:
                        harness_errors.append(res["harness_error"])
                        continue
                    merge_stats(agg, res.get("stats", {}))
                    nviol += res.get("nviolations", 0)
                    for sv in res.get("violations", []):
                        if len(violations) < 400:
                            violations.append((sv[0], sv[1], res["job"]))
                    if len(job_digests) < 400 and res.get("digest") is not None \
                            and res.get("wall", 0) < 20:
                        job_digests.append((res["job"], res["digest"]))
                    for s in res.get("samples", []):
                        agg.setdefault("_samples", [])
                        if len(agg["_samples"]) < 6:
                            agg["_samples"].append(s)
                if harness_errors and len(harness_errors) > 3:
                    break
        except cf.process.BrokenProcessPool:
            harness_errors.append("worker died (timeout or crash); see stderr")
    run_wall = time.time() - t0

    if harness_errors:
        print("HARNESS-ERROR:", harness_errors[0][-3000:])
        write_evidence(prop, tier, seed, agg, njobs, nviol, time.time() - t0, [], harness=True)
        return EXIT_HARNESS

    # ---- classify, shrink, replay-verify --------------------------------------
    known = load_known(prop.ID)
    classes = {}
    jobs_of = {}
    for scen, v, job in violations:
        ck = json.dumps(prop.vclass(scen, v), sort_keys=True)
        classes.setdefault(ck, []).append((scen, v))
        jobs_of.setdefault(ck, job)
    reported = []
    known_hits = {}
    exit_code = EXIT_OK
    os.makedirs(REPLAY_DIR, exist_ok=True)
    shrink_budget = 45.0 if tier == "quick" else 120.0
    max_classes = 25
    for ci, (ck, items) in enumerate(sorted(classes.items())):
        if ci >= max_classes:
            print(f"(further {len(classes) - max_classes} violation classes not minimised)")
            break
        scen, v = min(items, key=lambda sv: prop.size(sv[0]))
        small, sv = shrink(prop, scen, v, budget_s=shrink_budget / max(1, min(len(classes), 4)))
        r = prop.execute(small)
        if os.environ.get("VERIF_DEBUG"):
            r2 = prop.execute(small)
            print("DEBUG parent execute:", r.get("digest"), bool(r.get("violation")), "again:",
                  r2.get("digest"), bool(r2.get("violation")), json.dumps(r.get("trace"))[:600])
        sig = prop.signature(small, r.get("violation") or sv)
        h = hashlib.sha256(json.dumps(small, sort_keys=True).encode()).hexdigest()[:10]
        path = os.path.join(REPLAY_DIR, f"{prop.ID}-{seed}-{h}.json")
        rec = {"property": prop.ID, "verif_seed": seed, "tier": tier, "scenario": small,
               "violation": r.get("violation") or sv, "digest": r.get("digest"),
               "signature": sig, "class_count": len(items)}
        with open(path, "w") as fh:
            json.dump(rec, fh, indent=1, sort_keys=True)
        rc, out = replay_in_fresh_process(prop.ID, path)
        if rc != EXIT_VIOLATION or "REPLAY-MATCHES-RECORD=yes" not in out:
            # The single scenario does not fail alone in a fresh process. If the whole seeded job it
            # came from fails the same way when re-run from a fresh process, the outcome depends on
            # what the process executed before (state shared between functions / worlds): that is
            # reported with the job as the replay unit.
            jpath = path.replace(".json", "-job.json")
            jrec = {"property": prop.ID, "verif_seed": seed, "tier": tier, "job": jobs_of[ck],
                    "violation": rec["violation"], "signature": sig,
                    "note": "replay unit is the whole seeded job: the scenario alone does not fail in a "
                            "fresh process, i.e. the outcome depends on earlier scenarios of the process"}
            with open(jpath, "w") as fh:
                json.dump(jrec, fh, indent=1, sort_keys=True)
            rc2, out2 = replay_in_fresh_process(prop.ID, jpath)
            if rc2 == EXIT_VIOLATION and "JOB-REPLAY-VIOLATION" in out2:
                sig = dict(sig)
                sig["replay_unit"] = "job"
                reported.append((jpath, sig, rec["violation"], len(items)))
                continue
            print(f"HARNESS-ERROR: violation does not replay in a fresh process: {path}\n{out[-1500:]}")
            exit_code = EXIT_HARNESS
            continue
        hit = None
        for e in known:
            sigs = e.get("signatures") or [e.get("signature", {})]
            if e.get("status", "open") == "open" and any(sig_matches(sg, sig) for sg in sigs):
                hit = e
                break
        if hit is not None:
            known_hits.setdefault(hit["id"], (hit, path, 0))
            h0, p0, n0 = known_hits[hit["id"]]
            known_hits[hit["id"]] = (h0, p0, n0 + len(items))
        else:
            reported.append((path, sig, rec["violation"], len(items)))
    for hid, (e, path, n) in sorted(known_hits.items()):
        print(f"KNOWN-FINDING: property={prop.ID} {e['what']} [{hid}; {n} occurrence(s); e.g. {path}]")
    for path, sig, v, n in reported:
        print(f"violation class ({n}x): signature={json.dumps(sig, sort_keys=True)}")
        print("  " + json.dumps(v, sort_keys=True)[:1500])
        print(f"VIOLATION property={prop.ID} replay={path}")
        # a violation confirmed by its replay in a fresh process is the verdict, even when other
        # observations of the same run could not be reproduced (those stay on record above)
        exit_code = EXIT_VIOLATION

    # ---- determinism self-test -----------------------------------------------
    det = None
    if not args.no_selftest and job_digests and exit_code != EXIT_HARNESS:
        # spread the sample over the whole batch (fixed and seeded jobs), smallest index first
        job_digests.sort(key=lambda jd: json.dumps(jd[0], sort_keys=True))
        step = max(1, len(job_digests) // 5)
        sample = job_digests[::step][:5]
        ok, other = determinism_selftest(prop, [j for j, _ in sample], [d for _, d in sample],
                                         args.workers)
        det = {"jobs": len(sample), "ok": ok}
        if not ok:
            print(f"HARNESS-ERROR: nondeterminism: digests differ under another hash seed / ASLR: "
                  f"{[d for _, d in sample]} vs {other}")
            exit_code = EXIT_HARNESS

    write_evidence(prop, tier, seed, agg, njobs, len(reported), time.time() - t0,
                   [e["id"] for e, _, _ in known_hits.values()], det=det, run_wall=run_wall)
    print(f"done {prop.ID}: jobs={njobs} evaluations={agg.get('evaluations', 0)} "
          f"violations_total={nviol} classes={len(classes)} unlisted={len(reported)} "
          f"wall={time.time() - t0:.1f}s exit={exit_code}")
    return exit_code


def write_evidence(prop, tier, seed, agg, njobs, nviol, wall, known_ids, det=None,
                   harness=False, run_wall=None):
    cov = prop.coverage(agg)
    samples = agg.get("_samples", [])
    cov.setdefault("samples", samples or [{"note": "no sample recorded"}])
    cov["jobs"] = njobs
    rw = run_wall or wall
    cov["runs_per_hour"] = int(cov.get("evaluations", 0) / rw * 3600) if rw > 0 else 0
    cov["known_findings_matched"] = known_ids
    if det is not None:
        cov["determinism_selftest"] = det
    if harness:
        cov["harness_error"] = True
    ev = {
        "property_id": prop.ID, "tier": tier, "seed": seed, "level": prop.LEVEL,
        "coverage": cov, "assumptions": prop.ASSUMPTIONS, "wall_s": round(wall, 2),
        "violations": nviol,
    }
    os.makedirs(EVIDENCE_DIR, exist_ok=True)
    with open(os.path.join(EVIDENCE_DIR, f"{prop.ID}.json"), "w") as fh:
        json.dump(ev, fh, indent=1, sort_keys=True, default=lambda o: sorted(o) if isinstance(o, (set, frozenset)) else str(o))
