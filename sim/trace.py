"""The simulator core: one trace function that owns logical time, crash points
and the thread schedule.

* logical time  = number of ``line`` events executed in library code
                  (/repo/src/ovld, generated ``<ovld:...>`` code and, when asked,
                  the world module);
* crash point   = raise an exception from the trace function at logical step k
                  of one target operation;
* schedule      = real threads, one baton: at every line event the running
                  thread asks the scheduler whether it keeps the baton.
"""

import os
import sys
import threading

from .bootstrap import SRC
from .world import WORLD_PREFIX, make_exc

LIBDIR = os.path.join(os.path.realpath(SRC), "ovld") + os.sep
MASK = (1 << 61) - 1


class HarnessError(Exception):
    pass


class Deadlock(BaseException):
    pass


class StepCap(BaseException):
    """Raised into simulated code when a run exceeds its step budget."""


def code_kind(code, trace_world):
    if code.co_name in ("__hash__", "__eq__"):
        # invoked implicitly by C-level dict / set operations, at moments that depend on hash
        # values (addresses, hash seed): not part of the simulated execution
        return None
    fn = code.co_filename
    if fn.startswith("<ovld:"):
        return "gen"
    if fn.startswith(WORLD_PREFIX):
        return "world" if trace_world else None
    if os.path.realpath(fn).startswith(LIBDIR) if fn.startswith("/") else False:
        if fn.endswith("_verif.py"):
            return None
        return "lib"
    return None


def short_loc(code, lineno):
    fn = code.co_filename
    if fn.startswith("<ovld:"):
        fn = "<ovld>"
    elif fn.startswith(WORLD_PREFIX):
        fn = "<simworld>"
    else:
        fn = os.path.basename(fn)
    return f"{fn}:{code.co_name}:{lineno}"


HOT_FUNCS = ("compile", "ensure_compiled", "_is_built", "f", "first_entry", "resolve", "__missing__",
             "mro", "register", "_register", "_set", "unregister", "_update", "add_mixins",
             "_lock_parents", "lock")


_primed = False


class _PrimeAbort(BaseException):
    pass


def prime_opcode_tracing():
    """CPython 3.12 implements f_trace_opcodes through per-code-object instrumentation that only
    takes effect from the *next* frame of that code object. To keep an execution independent of
    what the process ran before, instrument every hot library code object once, up front: call a
    throw-away function built on the code object under a tracer that asks for opcode events and
    aborts the frame at its first event (no library line is executed)."""
    global _primed
    if _primed:
        return
    _primed = True
    import types

    import ovld.core
    import ovld.mro
    import ovld.typemap

    codes = []

    def walk(code):
        if code.co_name in HOT_FUNCS:
            codes.append(code)
        for c in code.co_consts:
            if isinstance(c, types.CodeType):
                walk(c)

    for mod in (ovld.core, ovld.typemap, ovld.mro):
        for obj in vars(mod).values():
            if isinstance(obj, types.FunctionType) and obj.__module__ == mod.__name__:
                walk(obj.__code__)
            elif isinstance(obj, type) and obj.__module__ == mod.__name__:
                for m in vars(obj).values():
                    fn = getattr(m, "__func__", m)
                    if isinstance(fn, types.FunctionType):
                        walk(fn.__code__)

    def gt(frame, event, arg):
        if frame.f_code in codeset:
            frame.f_trace_opcodes = True
            return lt
        return None

    def lt(frame, event, arg):
        raise _PrimeAbort()

    codeset = set(codes)
    old = sys.gettrace()
    for code in codes:
        cells = tuple(types.CellType(None) for _ in code.co_freevars)
        fn = types.FunctionType(code, {}, code.co_name, None, cells)
        nargs = code.co_argcount + code.co_kwonlyargcount
        sys.settrace(gt)
        try:
            fn(*([None] * code.co_argcount),
               **{n: None for n in code.co_varnames[code.co_argcount:nargs]})
        except BaseException:  # noqa: BLE001
            pass
        finally:
            sys.settrace(old)


class Sim:
    def __init__(self, trace_world=False, step_cap=400_000, record_locs=False,
                 monitor_codes=None, opcode_funcs=None):
        self.trace_world = trace_world
        self.step_cap = step_cap
        self.kinds = {}  # code -> kind or None
        self.code_ids = {}
        self.step = 0
        self.digest = 0
        self.crash_at = None  # absolute step at which to raise
        self.crash_exc = None
        self.crash_fired = None  # location string
        self.crash_loc = None  # (basename, co_name, lineno) alternative to crash_at
        self.crash_nth = 0
        self.crash_seen = 0
        self.trace_log = None  # optional list of short_loc per step
        self.sched = None
        self.record_locs = record_locs
        self.locs = {} if record_locs else None
        self.monitor_codes = monitor_codes or {}
        self.monitor_hits = []
        self.exc_codes = {}  # code -> label: record exceptions passing through these functions
        self.exc_hits = []
        self.monitor_tagged = False  # record (thread, tag, label) instead of label
        self.opcode_funcs = opcode_funcs or ()
        if self.opcode_funcs:
            prime_opcode_tracing()
        self.monitor_tag = {}
        self.last_loc = None

    # -- trace functions -----------------------------------------------------
    def global_trace(self, frame, event, arg):
        code = frame.f_code
        try:
            kind = self.kinds[code]
        except KeyError:
            kind = self.kinds[code] = code_kind(code, self.trace_world)
        if kind is None:
            return None
        if self.monitor_codes and code in self.monitor_codes:
            if self.monitor_tagged:
                s = self.sched
                tid = s.current if s is not None else 0
                self.monitor_hits.append((tid, self.monitor_tag.get(tid), self.monitor_codes[code]))
            else:
                self.monitor_hits.append(self.monitor_codes[code])
        if self.opcode_funcs and kind == "lib" and code.co_name in self.opcode_funcs:
            # bytecode granularity inside the functions that publish shared state: a yield /
            # crash point between two stores of one source line
            frame.f_trace_opcodes = True
        return self.local_trace

    def local_trace(self, frame, event, arg):
        if event == "exception" and self.exc_codes and frame.f_code in self.exc_codes:
            # an exception passing through a watched function (C20: a resolution that fails)
            tup = frame.f_locals.get("obj_t_tup")
            plain = not (tup and hasattr(tup[0], "co_code"))
            sc = self.sched
            tid = sc.current if sc is not None else 0
            self.exc_hits.append((self.exc_codes[frame.f_code], plain, tid, self.monitor_tag.get(tid)))
            return self.local_trace
        if event != "line" and event != "opcode":
            return self.local_trace
        code = frame.f_code
        self.step += 1
        step = self.step
        try:
            cid = self.code_ids[code]
        except KeyError:
            cid = self.code_ids[code] = len(self.code_ids) + 1
        lineno = frame.f_lineno or 0  # (None for some bytecodes under opcode tracing)
        sched = self.sched
        tid = sched.current if sched is not None else 0
        self.digest = (self.digest * 1000003 + cid * 8191 + lineno * 31 + tid) & MASK
        if self.locs is not None:
            key = (code, lineno)
            self.locs[key] = self.locs.get(key, 0) + 1
        if self.trace_log is not None:
            self.trace_log.append(short_loc(code, lineno))
        if step == self.crash_at:
            self.crash_at = None
            self.crash_fired = short_loc(code, lineno)
            raise make_exc(self.crash_exc)
        cl = self.crash_loc
        if cl is not None and lineno == cl[2] and code.co_name == cl[1]:
            if short_loc(code, lineno) == cl[3]:
                self.crash_seen += 1
                if self.crash_seen == self.crash_nth:
                    self.crash_loc = None
                    self.crash_fired = cl[3]
                    raise make_exc(self.crash_exc)
        if step > self.step_cap:
            self.step_cap = 1 << 60
            raise StepCap()
        if sched is not None:
            sched.point(frame)
        return self.local_trace

    # -- single-thread operation ----------------------------------------------
    def run(self, fn, crash_at=None, crash_exc="interrupt", crash_loc=None, crash_nth=1):
        """Run fn() under the tracer. Returns (value, exception, steps).

        crash_at: raise at the k-th line event (1-based) of this operation;
        crash_loc: "file:func:line" string, raise at its crash_nth visit."""
        start = self.step
        self.crash_fired = None
        if crash_at is not None:
            self.crash_at = start + crash_at
            self.crash_exc = crash_exc
        if crash_loc is not None:
            f, n, l = crash_loc.rsplit(":", 2)
            self.crash_loc = (f, n, int(l), crash_loc)
            self.crash_nth = crash_nth
            self.crash_seen = 0
            self.crash_exc = crash_exc
        old = sys.gettrace()
        sys.settrace(self.global_trace)
        try:
            try:
                v = fn()
                exc = None
            finally:
                sys.settrace(old)
                self.crash_at = None
                self.crash_loc = None
        except BaseException as e:  # noqa: BLE001
            if isinstance(e, (HarnessError, StepCap)):
                raise
            v, exc = None, e
        return v, exc, self.step - start


ACTIVE_SCHED = None


def lib_stack(frame, limit=40):
    """Names of library functions on the stack of ``frame`` (innermost first)."""
    out = []
    f = frame
    while f is not None and len(out) < limit:
        fn = f.f_code.co_filename
        if fn.startswith(LIBDIR) or fn.startswith("<ovld:"):
            out.append(f.f_code.co_name)
        f = f.f_back
    return out


class Scheduler:
    """Baton-passing scheduler for real threads.

    script: list of [global_step, tid] switch requests, consumed in order, or
    None when a strategy object decides on-line (the decisions are then
    recorded into ``self.switches`` in the same format).
    """

    def __init__(self, sim, nthreads, strategy=None, script=None, wall_timeout=60.0):
        self.sim = sim
        self.n = nthreads
        self.strategy = strategy
        self.script = list(script) if script is not None else None
        self.script_i = 0
        self.switches = []
        self.sems = [threading.Semaphore(0) for _ in range(nthreads)]
        self.state = ["new"] * nthreads  # new, ready, blocked, done
        self.blocked_on = [None] * nthreads
        self.current = None
        self.done_sem = threading.Semaphore(0)
        self.wall_timeout = wall_timeout
        self.errors = []
        self.switch_locs = []  # (from_tid, loc, to_tid)
        self.deadlock = False
        self.parked = [None] * nthreads  # library function names on the stack when pre-empted
        self.pending_pair = None
        self.pairs = []
        self.probes = {"switch_inside_compile": 0, "switch_inside_resolve": 0,
                       "dispatch_while_other_in_compile": 0,
                       "compile_while_other_in_compile": 0,
                       "lookup_while_other_in_resolve": 0, "blocked_on_lock": 0}
        self.watch = False
        sim.sched = self

    # -- decisions -----------------------------------------------------------
    def runnable(self):
        return [i for i in range(self.n) if self.state[i] == "ready"]

    def point(self, frame):
        cur = self.current
        step = self.sim.step
        nxt = None
        if self.pending_pair is not None:
            self.pairs.append((self.pending_pair, short_loc(frame.f_code, frame.f_lineno or 0)))
            self.pending_pair = None
        if self.watch:
            self._watch(cur, frame)
        if self.script is not None:
            while self.script_i < len(self.script) and self.script[self.script_i][0] < step:
                self.script_i += 1
            if self.script_i < len(self.script) and self.script[self.script_i][0] == step:
                nxt = self.script[self.script_i][1]
                self.script_i += 1
        elif self.strategy is not None:
            nxt = self.strategy.decide(self, step, cur, frame)
        if nxt is None or nxt == cur or not (0 <= nxt < self.n) or self.state[nxt] != "ready":
            return
        self.switches.append([step, nxt])
        loc = short_loc(frame.f_code, frame.f_lineno or 0)
        self.switch_locs.append((cur, loc, nxt))
        st = lib_stack(frame)
        self.parked[cur] = st
        if "compile" in st:
            self.probes["switch_inside_compile"] += 1
        if "resolve" in st or "__missing__" in st:
            self.probes["switch_inside_resolve"] += 1
        self.watch = True
        self.pending_pair = loc
        self._handoff(cur, nxt)
        self.parked[cur] = None
        self.watch = any(p for p in self.parked)

    def _watch(self, cur, frame):
        name = frame.f_code.co_name
        fn = frame.f_code.co_filename
        for i, st in enumerate(self.parked):
            if i == cur or not st:
                continue
            if "compile" in st:
                if fn.startswith("<ovld:") and "DEPENDENT" not in name and "specialized" not in name:
                    self.probes["dispatch_while_other_in_compile"] += 1
                elif name == "compile":
                    self.probes["compile_while_other_in_compile"] += 1
            if ("resolve" in st) and name == "__missing__":
                self.probes["lookup_while_other_in_resolve"] += 1

    def _handoff(self, cur, nxt):
        self.current = nxt
        self.sems[nxt].release()
        if not self.sems[cur].acquire(timeout=self.wall_timeout):
            raise HarnessError("baton wait timed out")

    # -- blocking (simulated locks) ---------------------------------------------
    def block(self, lock):
        """Current thread cannot take ``lock``: give the baton away until it can."""
        cur = self.current
        self.state[cur] = "blocked"
        self.blocked_on[cur] = lock
        ready = self.runnable()
        if not ready:
            self.deadlock = True
            self.state[cur] = "ready"
            raise Deadlock("all live threads are blocked")
        self.probes["blocked_on_lock"] += 1
        nxt = None
        if self.script is not None:
            i = self.script_i
            while i < len(self.script) and self.script[i][0] < self.sim.step:
                i += 1
            if i < len(self.script) and self.script[i][0] == self.sim.step \
                    and self.script[i][1] in ready:
                nxt = self.script[i][1]
                self.script_i = i + 1
        if nxt is None:
            nxt = ready[0] if self.strategy is None else self.strategy.pick(self, ready)
        self.switches.append([self.sim.step, nxt])
        self._handoff(cur, nxt)

    def unblock(self, lock):
        for i in range(self.n):
            if self.state[i] == "blocked" and self.blocked_on[i] is lock:
                self.state[i] = "ready"
                self.blocked_on[i] = None

    # -- thread life cycle ------------------------------------------------------
    def _thread_main(self, tid, body):
        if not self.sems[tid].acquire(timeout=self.wall_timeout):
            self.errors.append((tid, "start timeout"))
            return
        sys.settrace(self.sim.global_trace)
        try:
            body(tid)
        except BaseException as e:  # noqa: BLE001
            self.errors.append((tid, e))
        finally:
            sys.settrace(None)
            self.state[tid] = "done"
            ready = self.runnable()
            if ready:
                nxt = ready[0]
                self.current = nxt
                self.sems[nxt].release()
            else:
                if any(s == "blocked" for s in self.state):
                    self.deadlock = True
                self.done_sem.release()

    def run(self, bodies, first=0):
        global ACTIVE_SCHED
        ACTIVE_SCHED = self
        try:
            return self._run(bodies, first)
        finally:
            ACTIVE_SCHED = None
            self.sim.sched = None

    def _run(self, bodies, first=0):
        threads = []
        for tid, body in enumerate(bodies):
            t = threading.Thread(target=self._thread_main, args=(tid, body), daemon=True)
            threads.append(t)
            self.state[tid] = "ready"
        for t in threads:
            t.start()
        self.current = first
        self.sems[first].release()
        if not self.done_sem.acquire(timeout=self.wall_timeout):
            raise HarnessError("scheduler wall-clock timeout (hang)")
        for t in threads:
            if self.state[threads.index(t)] == "done":
                t.join(timeout=5)
        self.sim.sched = None
        for tid, e in self.errors:
            if isinstance(e, (HarnessError, StepCap)):
                raise e
        return self.errors


# ---------------------------------------------------------------------------
# strategies (each draws only from the run's PRNG)


class SimRLock:
    """Re-entrant lock served to the library instead of threading.(R)Lock.

    Blocking is a scheduler event, never an OS-level wait, so that the
    simulator keeps deciding who runs; "all threads blocked" is a deadlock
    verdict instead of a hang."""

    registry = []

    def __init__(self, reentrant=True):
        self.owner = None
        self.count = 0
        self.reentrant = reentrant
        SimRLock.registry.append(self)

    def _me(self):
        s = ACTIVE_SCHED
        return ("t", s.current) if s is not None else ("main",)

    def acquire(self, blocking=True, timeout=-1):
        me = self._me()
        while self.owner is not None and (self.owner != me or not self.reentrant):
            s = ACTIVE_SCHED
            if s is None:
                if self.owner != me:
                    # held by a simulated thread that is gone (crashed run): treat as free
                    self.owner = None
                    self.count = 0
                    break
                raise Deadlock("non-reentrant lock re-acquired")
            if not blocking:
                return False
            s.block(self)
            me = self._me()
        self.owner = me
        self.count += 1
        return True

    def release(self):
        if self.count <= 0:
            raise RuntimeError("release of an unheld lock")
        self.count -= 1
        if self.count == 0:
            self.owner = None
            s = ACTIVE_SCHED
            if s is not None:
                s.unblock(self)

    def locked(self):
        return self.owner is not None

    def __enter__(self):
        self.acquire()
        return self

    def __exit__(self, *a):
        self.release()

    @classmethod
    def reset_all(cls):
        for lk in cls.registry:
            lk.owner = None
            lk.count = 0


def install_lock_shim():
    """Serve SimRLock to modules of the ovld package (call before importing ovld)."""
    if getattr(threading, "_sim_shim", False):
        return
    real_rlock, real_lock = threading.RLock, threading.Lock

    def _from_ovld():
        f = sys._getframe(2)
        return (f.f_globals.get("__name__") or "").split(".")[0] == "ovld"

    def rlock(*a, **k):
        return SimRLock(True) if _from_ovld() else real_rlock(*a, **k)

    def lock(*a, **k):
        return SimRLock(False) if _from_ovld() else real_lock(*a, **k)

    threading.RLock = rlock
    threading.Lock = lock
    threading._sim_shim = True


class RandomWalk:
    def __init__(self, rng, p):
        self.rng = rng
        self.p = p

    def decide(self, sched, step, cur, frame):
        if self.rng.random() < self.p:
            ready = [i for i in sched.runnable() if i != cur]
            if ready:
                return ready[self.rng.randrange(len(ready))]
        return None

    def pick(self, sched, ready):
        return ready[self.rng.randrange(len(ready))]


class PCT:
    """Priority-based: highest-priority ready thread runs; at d change points
    the running thread's priority drops below everyone else's."""

    def __init__(self, rng, nthreads, est_steps, d):
        self.rng = rng
        self.prio = list(range(nthreads))
        rng.shuffle(self.prio)
        self.prio = [p + d + 1 for p in self.prio]
        self.points = sorted(rng.randrange(1, max(2, est_steps)) for _ in range(d))
        self.low = d

    def decide(self, sched, step, cur, frame):
        while self.points and self.points[0] <= step:
            self.points.pop(0)
            self.prio[cur] = self.low
            self.low -= 1
        ready = sched.runnable()
        best = max(ready, key=lambda i: self.prio[i])
        return best if best != cur else None

    def pick(self, sched, ready):
        return max(ready, key=lambda i: self.prio[i])


class Placed:
    """Pre-empt thread ``tid`` at the n-th visit of location (code name, line)
    and run ``to`` (until it finishes or is itself pre-empted by a later entry)."""

    def __init__(self, places):
        # places: list of [tid, loc_string, nth, to]
        self.places = [list(p) for p in places]
        self.visits = {}

    def decide(self, sched, step, cur, frame):
        if not self.places:
            return None
        loc = short_loc(frame.f_code, frame.f_lineno or 0)
        key = (cur, loc)
        n = self.visits[key] = self.visits.get(key, 0) + 1
        for p in self.places:
            if p[0] == cur and p[1] == loc and p[2] == n:
                self.places.remove(p)
                return p[3]
        return None

    def pick(self, sched, ready):
        return ready[0]
