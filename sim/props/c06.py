"""C06 - resolution is deterministic and ignores irrelevant context.

The simulator owns (1) the iteration order of the library's internal sets at
every hooked site (a recorded permutation per site visit), (2) the registration
order of distinct signatures, (3) the presence of methods that are inapplicable
to the whole corpus by construction, and (4) hash seed / object addresses
(fresh interpreters with a recorded PYTHONHASHSEED and number of pre-allocated
dummy classes, ASLR off). The corpus outcome vector must be identical across
all configurations of one scenario.
"""

import json
import os
import random
import subprocess
import sys

from .. import gen, order
from ..bootstrap import VERIF
from ..common import Harness, begin_run
from ..rng import run_rng, stable_hash
from ..world import World

ID = "C06"
NAME = "c06"
LEVEL = "exploration"
BUDGET = {"quick": 80, "thorough": 900}
ASSUMPTIONS = [
    "iteration-order sites are those hooked by the OVLD_VERIF seam; completeness of that list is audited "
    "by re-running scenarios in fresh interpreters under other hash seeds / allocation patterns in canonical mode",
    "extra methods are inapplicable by construction (first parameter annotated with a class unrelated to every "
    "corpus argument) and copy an existing method's parameter names, kinds and defaults",
    "ambiguity errors are compared by candidate set",
]

FEAT = gen.feat(
    p_proto=0.4,
    p_kw=0.35, p_kw2=0.55, p_kw_meth=0.85, p_kwheavy=0.12,
    ann={"c": 5, "o": 1, "u": 3, "i": 1.5, "d": 1.2, "x": 0.7, "h": 0.7, "ph": 0.5, "ss": 0.4,
         "w": 0.25},
    bodies={"next_try": 0.6, "leaf": 4, "next": 3, "rec": 0.8, "fnext": 0.3, "next2": 0.2, "rec_next": 0.3},
    ncls=(3, 7), nmeth=(3, 8), ncorpus=(5, 9), p_dup_sig=0.15, swarm_drop=0.3,
)
NCONFIG = {"quick": 16, "thorough": 32}


def sigkey(spec, r):
    from ..common import sigkey as _sk

    return _sk(spec, r[0], r[1] if len(r) > 1 else None)


def perm_regs(rng, spec, regs):
    """Random permutation of the registrations that keeps the relative order of identical signatures."""
    idx = list(range(len(regs)))
    rng.shuffle(idx)
    out = [regs[i] for i in idx]
    # restore relative order within each identical-signature group
    groups = {}
    for r in regs:
        groups.setdefault(sigkey(spec, r), []).append(r)
    its = {k: iter(v) for k, v in groups.items()}
    return [next(its[sigkey(spec, r)]) for r in out]


def make_extras(rng, spec, regs, n):
    """Methods that are inapplicable to every corpus call by construction.

    x<i>: first parameter annotated with KX, a class unrelated to every corpus argument.
    k<i>: types drawn like any other method's (so they may well cover corpus arguments) but with a
          required keyword-only parameter ``kx`` that no corpus call passes."""
    gen.extra_class(spec, "KX")
    names = [c[0] for c in spec["classes"] if c[0] != "KX"]
    out = []
    regs = [r for r in regs if spec["methods"][r[0]]["params"]
            and spec["methods"][r[0]]["params"][0][1] != "kw"] or regs
    for i in range(n):
        src = spec["methods"][rng.choice(regs)[0]]
        params = json.loads(json.dumps(src["params"]))
        params[0][2] = ["c", "KX"]
        mid = f"x{i}"
        spec["methods"][mid] = {"params": params, "prio": rng.choice([0, 0, 5, -5]),
                                "body": [rng.choice(["leaf", "next"])]}
        out.append(mid)
    for i in range(2):
        src = spec["methods"][rng.choice(regs)[0]]
        # full clone (same arity, names, defaults and keyword-only parameters: which call shapes the
        # entry point accepts is documented as a property of the whole method set) ...
        params = json.loads(json.dumps(src["params"]))
        for p, fl in zip([q for q in params if q[1] != "kw"], spec["meta"]["flavour"]):
            if fl == "cls":
                p[2] = ["c", rng.choice(names)] if rng.random() < 0.8 else ["o"]
        # ... plus one more required keyword that no corpus call passes
        params.append(["kx", "kw", ["o"], False])
        mid = f"k{i}"
        spec["methods"][mid] = {"params": params, "prio": 0, "body": ["leaf"]}
        out.append(mid)
    # n0: KX-annotated clone of a method *without* its keyword-only parameters. A keyword that not
    # every method declares is no longer demanded by the entry point, so calls omitting it change
    # from a call-shape TypeError to 'No method' (documented); configurations with this extra
    # compare the two kinds of rejection as equal (see rejected()).
    with_kw = [r[0] for r in regs if any(p[1] == "kw" for p in spec["methods"][r[0]]["params"])]
    if with_kw:
        src = spec["methods"][rng.choice(with_kw)]
        params = [p for p in json.loads(json.dumps(src["params"])) if p[1] != "kw"]
        params[0][2] = ["c", "KX"]
        spec["methods"]["n0"] = {"params": params, "prio": 0, "body": ["leaf"]}
        out.append("n0")
    return out


def rejected(o):
    if o[0] == "err" and not o[1] and o[2][0] in ("shape", "nomethod"):
        return ["err", [], ["rejected"]]
    return o


def comparable(vec, cfg):
    if cfg and any(m.startswith("n") for m in (cfg.get("extras") or [])):
        return [rejected(o) for o in vec]
    return vec


def seeded_family(seed, index):
    s, rng = run_rng(ID, index, seed=seed)
    spec = gen.gen_world(rng, FEAT)
    mids = list(spec["methods"])
    regs = [[m] for m in rng.sample(mids, rng.randint(2, len(mids)))]
    corpus = gen.gen_corpus(rng, spec, FEAT)
    extras = make_extras(rng, spec, regs, 3)
    fam = {"label": f"seed:{s}", "spec": spec, "regs": regs, "corpus": corpus, "extras": extras,
           "rng_state": rng.getrandbits(48)}
    if rng.random() < 0.25 and len(regs) >= 2 \
            and not any(spec["methods"][r[0]]["body"][0] == "fnext" for r in regs):
        # the function is a combination of two parents (mixins); one method of the first parent has
        # a twin of identical signature in the second (the later mixin's is the one that counts)
        k = rng.randint(1, len(regs) - 1)
        src = regs[rng.randrange(k)][0]
        twin = src + "w"
        t = json.loads(json.dumps(spec["methods"][src]))
        t["body"] = ["leaf"]
        t.pop("factory", None)
        spec["methods"][twin] = t
        fam["mixins"] = {"split": k, "twin": twin}
    return fam


def gen_config(rng, fam):
    cfg = {"order": None, "regs": None, "extras": [], "where": "end"}
    dims = rng.sample(["order", "regs", "extras"], rng.randint(1, 3))
    if "order" in dims:
        cfg["order"] = {"seed": rng.getrandbits(32)}
    if "regs" in dims and not fam.get("mixins"):
        cfg["regs"] = perm_regs(rng, fam["spec"], fam["regs"])
    if "extras" in dims:
        cfg["extras"] = rng.sample(fam["extras"], rng.randint(1, len(fam["extras"])))
        cfg["where"] = rng.choice(["end", "start", "mixed"])
    return cfg


def coarse(o):
    """The statement fixes *which error* is raised, not the diagnostic candidate list of an
    ambiguity error (that list is 'the first maximal candidate plus whatever it does not dominate')."""
    if o[0] == "err" and o[2][0] == "ambiguous":
        return [o[0], o[1], ["ambiguous"]]
    if o[0] == "err" and o[2][0] == "nomethod" and len(o[2]) > 1:
        # the message lists keyword arguments in the order of the lookup key, which follows the
        # order in which the methods declared them: compare as a set
        body = o[2][1][1:-1] if o[2][1].startswith("[") and o[2][1].endswith("]") else o[2][1]
        return [o[0], o[1], ["nomethod", sorted(body.split(", "))]]
    if o[0] == "err" and o[2][0] == "shape" and len(o[2]) > 1:
        # "missing ... keyword-only arguments: 'k0' and 'k1'": the names come in declaration order
        import re

        names = sorted(re.findall(r"'(\w+)'", o[2][1]))
        return [o[0], o[1], ["shape", re.sub(r"'\w+'", "'_'", o[2][1]), names]]
    return o


def outcome_vector(fam, cfg):
    """Build the function under configuration cfg and call the corpus in order."""
    begin_run()
    ctl = order.controller
    if cfg and cfg.get("order"):
        o = cfg["order"]
        if "script" in o:
            ctl.script = {(s, v): p for s, v, p in o["script"]}
        else:
            ctl.permute = order.make_permuter(random.Random(o["seed"]))
    regs = [list(r) for r in ((cfg and cfg.get("regs")) or fam["regs"])]
    extras = [[m] for m in ((cfg and cfg.get("extras")) or [])]
    where = (cfg or {}).get("where", "end")
    if where == "start":
        regs = extras + regs
    elif where == "mixed" and regs:
        mid = len(regs) // 2
        regs = regs[:mid] + extras + regs[mid:]
    else:
        regs = regs + extras
    mx = fam.get("mixins")
    if mx and not (cfg and cfg.get("regs")):
        w = World(fam["spec"])
        base = [list(r) for r in fam["regs"]]
        rest = [r for r in regs if r not in base]  # the extras of this configuration
        w.new_func("p1")
        for r in base[: mx["split"]]:
            w.register("p1", r[0], r[1] if len(r) > 1 else None)
        w.new_func("p2")
        for r in base[mx["split"]:] + [[mx["twin"]]] + rest:
            w.register("p2", r[0], r[1] if len(r) > 1 else None)
        w.new_func("f", mixins=("p1", "p2"), main=True)
        vec = [coarse(w.call("f", c)) for c in fam["corpus"]]
    else:
        h = Harness(fam["spec"], regs)
        vec = [coarse(o) for o in h.probes(fam["corpus"])]
    applied = list(ctl.applied)
    eff = dict(ctl.effective)
    ctl.permute = None
    ctl.script = None
    return vec, applied, eff


def execute(scen):
    fam, cfg = scen["family"], scen["config"]
    if cfg.get("env"):
        return execute_env(scen)
    ref, _, _ = outcome_vector(fam, None)
    vec, applied, eff = outcome_vector(fam, cfg)
    ref, vec = comparable(ref, cfg), comparable(vec, cfg)
    violation = None
    if vec != ref:
        i = next(i for i, (a, b) in enumerate(zip(vec, ref)) if a != b)
        # effective dimensions (an order configuration that permuted nothing does not count)
        dims = [d for d in ("order", "regs", "extras") if cfg.get(d) and (d != "order" or applied)]
        violation = {"clause": "outcome changes with irrelevant context", "dims": dims,
                     "call_index": i, "call": fam["corpus"][i], "observed": vec[i],
                     "reference": ref[i], "symptom": symptom(vec[i], ref[i]),
                     "sites": sorted({a[0] for a in applied}), "nperms": len(applied),
                     "extra_kinds": sorted({m[0] for m in (cfg.get("extras") or [])})}
    digest = stable_hash([vec, ref, applied])
    return {"violation": violation, "digest": digest, "applied": applied, "effective": eff,
            "nontrivial": bool(applied) or bool(cfg.get("regs")) or bool(cfg.get("extras"))}


def symptom(p, r):
    def k(o):
        return "ok" if o[0] == "ok" else o[2][0]
    return f"{k(p)}-vs-{k(r)}"


# ---- dimension (4): other interpreters ---------------------------------------


def env_outcomes(fams, env):
    """Run outcome_vector(fam, None) for each family in a fresh interpreter configured by env."""
    e = dict(os.environ)
    for k in ("VERIF_BOOTSTRAPPED", "PYTHONHASHSEED"):
        e.pop(k, None)
    e["VERIF_HASHSEED"] = str(env["hashseed"])
    e["VERIF_ASLR"] = "off"
    e["VERIF_PREALLOC"] = str(env["prealloc"])
    import tempfile

    with tempfile.NamedTemporaryFile("w", suffix=".json", delete=False) as tf:
        json.dump([{"kind": "env_child", "families": fams}], tf)
    try:
        p = subprocess.run([sys.executable, os.path.join(VERIF, "check.py"), ID, "--digest-jobs",
                            "@" + tf.name],
                           env=e, capture_output=True, text=True, timeout=600, cwd=VERIF)
    finally:
        os.unlink(tf.name)
    for line in p.stdout.splitlines():
        if line.startswith("DIGESTS "):
            return json.loads(line[len("DIGESTS "):])[0]
    raise RuntimeError("env child failed: " + p.stdout[-1000:] + p.stderr[-2000:])


def _prealloc():
    n = int(os.environ.get("VERIF_PREALLOC", "0"))
    keep = []
    for i in range(n):
        keep.append(type(f"Dummy{i}", (), {}))
    return keep


def execute_env(scen):
    fam, cfg = scen["family"], scen["config"]
    ref, _, _ = outcome_vector(fam, None)
    other = env_outcomes([fam], cfg["env"])[0]
    violation = None
    if other != ref:
        i = next(i for i, (a, b) in enumerate(zip(other, ref)) if a != b)
        violation = {"clause": "outcome depends on hash seed / object addresses (canonical order mode): "
                               "an order-dependent site is not covered by the seam",
                     "dims": ["env"], "env": cfg["env"], "call_index": i, "observed": other[i],
                     "reference": ref[i], "symptom": symptom(other[i], ref[i])}
    return {"violation": violation, "digest": stable_hash([ref, other]), "applied": [],
            "effective": {}, "nontrivial": True}


# --------------------------------------------------------------------------


def run_job(job):
    if job["kind"] == "env_child":
        keep = _prealloc()  # noqa: F841
        return {"digest": [outcome_vector(f, None)[0] for f in job["families"]]}
    stats = {"evaluations": 0, "families": 0, "nontrivial": [], "perm_vectors": [],
             "site_effective_visits": {}, "by_dim": {}, "env_runs": 0, "site_states": []}
    violations = []
    nviol = 0
    dig = 0
    samples = []
    if job["kind"] == "env":
        fams = [seeded_family(job["seed"], i) for i in job["indices"]]
        refs = [outcome_vector(f, None)[0] for f in fams]
        others = env_outcomes(fams, job["env"])
        stats["families"] = len(fams)
        for f, r, o in zip(fams, refs, others):
            stats["evaluations"] += 1
            stats["env_runs"] += 1
            stats["by_dim"]["env"] = stats["by_dim"].get("env", 0) + 1
            stats["nontrivial"].append(stable_hash([f["label"], job["env"]]))
            dig = (dig * 1000003 + stable_hash([r, o])) & ((1 << 61) - 1)
            if r != o:
                nviol += 1
                scen = {"family": f, "config": {"env": job["env"]}}
                rr = execute_env(scen)
                if rr["violation"] and len(violations) < 4:
                    violations.append((scen, rr["violation"]))
        return {"stats": stats, "violations": violations, "nviolations": nviol, "digest": dig,
                "samples": [{"env": job["env"], "families": [f["label"] for f in fams[:3]]}]}
    for index in range(job["index"], job["index"] + job["count"]):
        fam = seeded_family(job["seed"], index)
        rng = random.Random(fam["rng_state"])
        stats["families"] += 1
        ref, _, eff0 = outcome_vector(fam, None)
        for site, n in eff0.items():
            stats["site_effective_visits"][site] = stats["site_effective_visits"].get(site, 0) + n
        for ci in range(job["nconfig"]):
            cfg = gen_config(rng, fam)
            vec, applied, eff = outcome_vector(fam, cfg)
            stats["evaluations"] += 1
            dims = "+".join(d for d in ("order", "regs", "extras") if cfg.get(d))
            stats["by_dim"][dims] = stats["by_dim"].get(dims, 0) + 1
            if applied or cfg.get("regs") or cfg.get("extras"):
                stats["nontrivial"].append(stable_hash([fam["label"], applied, cfg.get("regs"),
                                                        cfg.get("extras"), cfg.get("where")]))
            if applied:
                stats["perm_vectors"].append(stable_hash(applied))
                for s, v, p in applied[:30]:
                    stats["site_states"].append(f"{s}:{len(p)}")
            dig = (dig * 1000003 + stable_hash([vec, applied])) & ((1 << 61) - 1)
            if comparable(vec, cfg) != comparable(ref, cfg):
                nviol += 1
                c2 = dict(cfg)
                if cfg.get("order"):
                    c2["order"] = {"script": applied}
                scen = {"family": fam, "config": c2}
                r = execute(scen)
                if r["violation"] and len(violations) < 6:
                    violations.append((scen, r["violation"]))
            elif not samples and applied:
                samples.append({"family": fam["label"], "regs": fam["regs"],
                                "config": {"order_perms": applied[:4], "regs": cfg.get("regs"),
                                           "extras": cfg.get("extras")},
                                "corpus_calls": len(fam["corpus"]), "vector_equal": True})
    return {"stats": stats, "violations": violations, "nviolations": nviol, "digest": dig,
            "samples": samples}


def jobs(tier, seed):
    nconfig = NCONFIG[tier]
    rng = random.Random(seed * 7919 + 13)
    if tier == "quick":
        for i in range(0, 4000, 25):
            yield {"kind": "seeded", "seed": seed, "index": i, "count": 25, "nconfig": nconfig}
        for e in range(8):
            yield {"kind": "env", "seed": seed, "indices": list(range(e * 5, e * 5 + 40)),
                   "env": {"hashseed": rng.randrange(1, 100000), "prealloc": rng.randrange(0, 400)}}
    else:
        i = 0
        while True:
            for _ in range(8):
                yield {"kind": "seeded", "seed": seed, "index": i, "count": 10, "nconfig": nconfig}
                i += 10
            yield {"kind": "env", "seed": seed, "indices": list(range(max(0, i - 80), i)),
                   "env": {"hashseed": rng.randrange(1, 100000), "prealloc": rng.randrange(0, 400)}}


# --------------------------------------------------------------------------


def nonmirror_pattern(scen, v):
    """Structural pattern of the minimised counter-example: a pair of registered types at one
    position with a non-mirror type order (typeorder(a,b) is not the opposite of typeorder(b,a))."""
    try:
        from ovld.mro import typeorder

        begin_run()
        fam = scen["family"]
        w = World(fam["spec"])
        found = set()
        regs = fam["regs"]
        anns = {}
        for r in regs:
            for i, p in enumerate(fam["spec"]["methods"][r[0]]["params"]):
                anns.setdefault(i if p[1] != "kw" else p[0], []).append(p[2])
        from ovld.types import normalize_type

        for pos, lst in anns.items():
            objs = []
            for a in lst:
                from ..world import ann_src

                try:
                    t = normalize_type(eval(ann_src(a), w.mod.__dict__), None)
                except Exception:  # noqa: BLE001
                    continue
                objs.append((a[0], t))
            for i, (k1, t1) in enumerate(objs):
                for k2, t2 in objs[i + 1:]:
                    try:
                        o12, o21 = typeorder(t1, t2), typeorder(t2, t1)
                    except Exception:  # noqa: BLE001
                        continue
                    if o12.opposite() is not o21:
                        found.add("nonmirror:" + "-".join(sorted([k1, k2])))
        return sorted(found)
    except Exception as e:  # noqa: BLE001
        return ["pattern-error:" + type(e).__name__]


def tie_pattern(scen, v):
    """Does the differing call have several candidates with equal sort key, one of them
    value-dependent? (root-cause pattern of known finding F-C06-3)"""
    try:
        begin_run()
        fam = scen["family"]
        extras = [[m] for m in (scen["config"].get("extras") or [])]
        h = Harness(fam["spec"], [list(r) for r in fam["regs"]] + extras)
        c = v.get("call") or fam["corpus"][v["call_index"]]
        h.w.call("f", c)
        from ovld.utils import subtler_type

        m = h.ov.map
        hit = False
        for tup in list(m.all):
            if tup and not isinstance(tup[0], type(execute.__code__)):
                groups = m.mro(tup)
                cands = [x for g in groups for x in g]
                for i, a in enumerate(cands):
                    for b in cands[i + 1:]:
                        if a.sort_key() == b.sort_key() and (
                                m.dependent.get(a.handler) or m.dependent.get(b.handler)
                                or any(m.dependent.get(x.handler) for x in cands)):
                            hit = True
        return hit
    except Exception:  # noqa: BLE001
        return False


def extra_covers(scen, v):
    """Root-cause pattern of F-C06-4: some *extra* (inapplicable) method has a parameter whose
    declared type covers the differing call's argument at that position / keyword."""
    try:
        from ovld.mro import subclasscheck
        from ovld.types import normalize_type
        from ovld.utils import subtler_type

        from ..world import ann_src

        begin_run()
        fam, cfg = scen["family"], scen["config"]
        w = World(fam["spec"])
        c = v.get("call") or fam["corpus"][v["call_index"]]
        # every value the call can dispatch on: its arguments, their children (bodies recurse on
        # them) and the literal arguments of call_next(<other value>) bodies
        specs = []

        def walk(x):
            specs.append(x)
            if x[0] == "n":
                for k in x[3]:
                    walk(k)

        for x in list(c.get("args", [])) + list(c.get("kw", {}).values()):
            walk(x)
        for r in fam["regs"]:
            b = fam["spec"]["methods"][r[0]]["body"]
            if b[0] == "next_other":
                walk(b[1])
        vals = [w.value(x) for x in specs]
        for mid in cfg.get("extras") or []:
            for name, kind, ann, _ in fam["spec"]["methods"][mid]["params"]:
                t = normalize_type(eval(ann_src(ann), w.mod.__dict__), None)
                if t is object:
                    continue
                for val in vals:
                    for at in {type(val), subtler_type(val)}:
                        try:
                            if subclasscheck(at, t):
                                return True
                        except Exception:  # noqa: BLE001
                            pass
        return False
    except Exception:  # noqa: BLE001
        return None


def rank_composition_differs(scen, v):
    """Re-run reference and configuration with MultiTypeMap.mro recorded: does some resolution
    partition its candidates into different ranks (as sets) under the two orders?
    (that - and not merely another order inside one rank - is the mechanism of F-C06-3)"""
    try:
        import ovld.typemap as tm

        rec = []
        orig = tm.MultiTypeMap.mro

        def spy(self, tup):
            groups = orig(self, tup)
            rec[-1].append((repr(tup), [frozenset(
                (getattr(c.handler, "__name__", "?"), getattr(getattr(c.handler, "__code__", None),
                                                              "co_firstlineno", 0)) for c in g)
                for g in groups]))
            return groups

        tm.MultiTypeMap.mro = spy
        try:
            rec.append([])
            outcome_vector(scen["family"], None)
            rec.append([])
            outcome_vector(scen["family"], scen["config"])
        finally:
            tm.MultiTypeMap.mro = orig
        a = {}
        for k, g in rec[0]:
            a.setdefault(k, g)
        for k, g in rec[1]:
            if k in a and a[k] != g:
                return True
        return False
    except Exception:  # noqa: BLE001
        return None


def vclass(scen, v):
    return [v["clause"][:40], v.get("symptom")]


def signature(scen, v):
    return {"clause": v["clause"], "dims": "+".join(v.get("dims") or []),
            "patterns": "|".join(nonmirror_pattern(scen, v)), "symptom": v.get("symptom"),
            "sites": "+".join(v.get("sites") or []),
            "extra_kinds": "+".join(v.get("extra_kinds") or []),
            "dependent_candidates_tied": tie_pattern(scen, v),
            "rank_composition_differs": rank_composition_differs(scen, v),
            "extra_covers_argument": extra_covers(scen, v)}


def size(scen):
    fam, cfg = scen["family"], scen["config"]
    o = cfg.get("order") or {}
    return (len(fam["regs"]) * 10 + len(fam["corpus"]) * 3 + len(o.get("script", [])) * 2
            + (5 if cfg.get("regs") else 0) + len(cfg.get("extras") or []) * 4)


def shrink_moves(scen):
    fam, cfg = scen["family"], scen["config"]

    def with_fam(**kw):
        f2 = dict(fam)
        f2.update(kw)
        f2["label"] = fam["label"] + "'"
        return f2

    # simplify the configuration first
    if cfg.get("extras"):
        for i in range(len(cfg["extras"])):
            c2 = dict(cfg)
            c2["extras"] = cfg["extras"][:i] + cfg["extras"][i + 1:]
            yield {"family": fam, "config": c2}
    if cfg.get("regs"):
        c2 = dict(cfg)
        c2["regs"] = None
        yield {"family": fam, "config": c2}
    o = cfg.get("order")
    if o:
        c2 = dict(cfg)
        c2["order"] = None
        yield {"family": fam, "config": c2}
    if o and "script" in o:
        sc = o["script"]
        if len(sc) > 3:
            for half in (sc[: len(sc) // 2], sc[len(sc) // 2:]):
                c2 = dict(cfg)
                c2["order"] = {"script": half}
                yield {"family": fam, "config": c2}
        for i in range(len(sc) - 1, -1, -1):
            c2 = dict(cfg)
            c2["order"] = {"script": sc[:i] + sc[i + 1:]} if len(sc) > 1 else None
            yield {"family": fam, "config": c2}
    for i in range(len(fam["corpus"]) - 1, -1, -1):
        if len(fam["corpus"]) > 1:
            yield {"family": with_fam(corpus=fam["corpus"][:i] + fam["corpus"][i + 1:]), "config": cfg}
    for i in range(len(fam["regs"]) - 1, -1, -1):
        if len(fam["regs"]) > 1:
            mid = fam["regs"][i][0]
            c2 = dict(cfg)
            if cfg.get("regs"):
                c2["regs"] = [r for r in cfg["regs"] if r[0] != mid]
            # a permutation script refers to visit numbers; they may shift - still tried
            f2 = with_fam(regs=fam["regs"][:i] + fam["regs"][i + 1:])
            yield {"family": f2, "config": c2}
            if cfg.get("order"):
                # ... and re-searched with a few fresh permutation seeds
                for sd in range(6):
                    c3 = dict(c2)
                    c3["order"] = {"seed": sd}
                    yield {"family": f2, "config": c3}
    if o and "seed" in o:
        # turn a seeded permutation back into an explicit (shrinkable) script
        r = execute(scen)
        if r["applied"]:
            c2 = dict(cfg)
            c2["order"] = {"script": r["applied"]}
            yield {"family": fam, "config": c2}


def coverage(agg):
    return {
        "evaluations": int(agg.get("evaluations", 0)),
        "distinct_nontrivial": len(agg.get("nontrivial", set())),
        "rule": "one evaluation = one configuration (site-visit permutations x registration order x extra "
                "inapplicable methods, or one foreign-interpreter run) of one seeded scenario, its corpus outcome "
                "vector compared with the canonical configuration; non-trivial = at least one site visit with >= 2 "
                "items permuted non-identically, or a changed registration order, or extras present; distinct by "
                "(scenario, applied permutations, registration order, extras)",
        "families": int(agg.get("families", 0)),
        "distinct_permutation_vectors": len(agg.get("perm_vectors", set())),
        "effective_site_visits_in_reference_runs": agg.get("site_effective_visits", {}),
        "distinct_site_itemcount_states": len(agg.get("site_states", set())),
        "configurations_by_dimension": agg.get("by_dim", {}),
        "foreign_interpreter_runs": int(agg.get("env_runs", 0)),
        "fault_kinds": "none (configuration space only)",
        "real_components": ["ovld (all of it)"],
        "simulated_components": ["set iteration order at seam sites", "registration order",
                                 "hash seed and allocation pattern (fresh interpreters, ASLR off)"],
        "exhaustive": False,
    }
