"""C18 - a failed build never leaves a half-built function in service.

Fault enumeration: for one *family* (world, method set, target operation) the
dry run of the target operation yields every executed library line; the family
is then re-run once per (line, visit) crash point - i.e. once per executed
line event - plus once per user-hook invocation and per rewritten method
(source-read fault). After the faulted operation every corpus call is compared
with the fresh-build reference.
"""

import json

from .. import gen
from ..common import (Harness, begin_run, install_source_shim, model_apply,
                      ref_outcomes, source_shim)
from ..rng import run_rng, stable_hash, weighted
from ..trace import HOT_FUNCS, Sim, SimRLock
from ..world import SimInterrupt, World, is_dispatch_verdict

ID = "C18"
NAME = "c18"
LEVEL = "fault_enumeration"
BUDGET = {"quick": 200, "thorough": 900}
ASSUMPTIONS = [
    "faults are exceptions raised at source-line boundaries of library code (settrace line events); "
    "a fault half-way through a C-level call is not modelled",
    "reference = the same library building a fresh function from the model's method set (differential)",
    "worlds bounded: <= 8 classes, <= 8 methods, arity <= 3",
    "iteration order of internal sets is canonicalised through the OVLD_VERIF seam",
]
STRIDES = {"quick": 8, "thorough": 16}

FEAT = gen.feat(
    p_self=0.12,
    bodies={"next_try": 0.6, "leaf": 4, "next": 3, "rec": 1.5, "fnext": 0.5, "next2": 0.4,
            "next_other": 0.3, "rec_next": 0.5},
    p_kw=0.1, p_optional=0.1, ncorpus=(4, 6), nmeth=(3, 6),
)

# --------------------------------------------------------------------------
# fixed worlds (quick tier enumerates every crash point of these)

_CL = [["K0", [], False], ["K1", ["K0"], False], ["K2", ["K0"], False],
       ["K3", ["K1", "K2"], False], ["KX", [], False]]


def _m(ann, body, prio=0, name="a0"):
    return {"params": [[name, "pos", ann, False]], "prio": prio, "body": body}


FIXED = {
    "chain": {
        "spec": {"classes": _CL, "hooks": [], "deps": [], "methods": {
            "m0": _m(["o"], ["leaf"]),
            "m1": _m(["c", "K0"], ["rec_next"]),
            "m2": _m(["c", "K1"], ["next"]),
            "m3": _m(["c", "K3"], ["next"]),
            "m4": _m(["c", "K2"], ["leaf"]),
            "mx": _m(["c", "KX"], ["next"]),
            "mbad": _m(["c", "KX"], ["bad_next"]),
            "mbadk": {"params": [["z0", "pos", ["c", "KX"], False], ["a0", "kw", ["o"], False]],
                      "prio": 0, "body": ["leaf"]},
        }, "meta": {"min_ar": 1, "max_ar": 1, "flavour": ["cls"], "has_kw": False, "mixed": False}},
        "regs": [["m0"], ["m1"], ["m2"], ["m3"], ["m4"]],
        "corpus": [{"args": [["n", "K1", 0, []]]}, {"args": [["n", "K3", 1, [["n", "K2", 0, []]]]]},
                   {"args": [["int", 3]]}, {"args": [["n", "K2", 0, []]]},
                   {"args": [["n", "K0", 0, [["n", "K1", 0, []]]]]}],
    },
    "hooks": {
        "spec": {"classes": _CL, "hooks": [{"name": "H0", "true_for": ["K1", "K3"]}],
                 "deps": [{"name": "P0", "bound": "object", "mod": 2, "eq": 0}], "methods": {
            "m0": _m(["o"], ["leaf"]),
            "m1": _m(["h", "H0"], ["next"], prio=1),
            "m2": _m(["d", "K0", "P0"], ["next"]),
            "m3": _m(["c", "K0"], ["leaf"]),
            "m4": _m(["ph", "K0"], ["fnext"]),
            "mx": _m(["c", "KX"], ["leaf"]),
            "mbad": _m(["c", "KX"], ["bad_next"]),
            "mbadk": {"params": [["z0", "pos", ["c", "KX"], False], ["a0", "kw", ["o"], False]],
                      "prio": 0, "body": ["leaf"]},
        }, "meta": {"min_ar": 1, "max_ar": 1, "flavour": ["cls"], "has_kw": False, "mixed": False}},
        "regs": [["m0"], ["m1"], ["m2"], ["m3"], ["m4"]],
        "corpus": [{"args": [["n", "K1", 0, []]]}, {"args": [["n", "K1", 1, []]]},
                   {"args": [["n", "K2", 2, []]]}, {"args": [["n", "K0", 1, []]]},
                   {"args": [["str", "s"]]}],
    },
    "multi": {
        "spec": {"classes": _CL, "hooks": [], "deps": [], "methods": {
            "m0": {"params": [["a0", "pos", ["o"], False], ["a1", "pos", ["o"], False]], "prio": 0, "body": ["leaf"]},
            "m1": {"params": [["a0", "pos", ["c", "K1"], False], ["a1", "pos", ["c", "K0"], False]], "prio": 0, "body": ["next"]},
            "m2": {"params": [["a0", "pos", ["c", "K0"], False], ["a1", "pos", ["c", "K2"], False]], "prio": 0, "body": ["next"]},
            "m3": {"params": [["a0", "pos", ["c", "K3"], False], ["a1", "pos", ["u", [["c", "K1"], ["c", "K2"]]], False]], "prio": 1, "body": ["next"]},
            "m4": {"params": [["a0", "pos", ["c", "K0"], False]], "prio": 0, "body": ["leaf"]},
            "mx": {"params": [["a0", "pos", ["c", "KX"], False], ["a1", "pos", ["o"], False]], "prio": 0, "body": ["next"]},
            "mbad": {"params": [["a0", "pos", ["c", "KX"], False], ["a1", "pos", ["o"], False]], "prio": 0, "body": ["bad_next"]},
            "mbadk": {"params": [["a1", "pos", ["c", "KX"], False], ["a0", "pos", ["o"], False]], "prio": 0, "body": ["leaf"]},
        }, "meta": {"min_ar": 1, "max_ar": 2, "flavour": ["cls", "cls"], "has_kw": False, "mixed": False}},
        "regs": [["m0"], ["m1"], ["m2"], ["m3"], ["m4"]],
        "corpus": [{"args": [["n", "K1", 0, []], ["n", "K2", 0, []]]},
                   {"args": [["n", "K3", 0, []], ["n", "K2", 0, []]]},
                   {"args": [["n", "K3", 0, []], ["n", "K3", 0, []]]},
                   {"args": [["n", "K0", 0, []]]},
                   {"args": [["int", 1], ["int", 2]]}],
    },
}

TARGET_KINDS = ["first_call", "first_resolve", "miss_call", "register",
                "unregister", "replace", "invalid_first", "invalid_rebuild", "retry_after_invalid",
                "rebuild_after_fix",
                # the same with a method that is rejected by argument analysis (conflicting names)
                # instead of while it is being adapted
                "invalidk_first", "invalidk_rebuild",
                # first use of a plain (non-linkback) copy: building it is also what locks the parent
                "copy_first_call", "copy2_first_call"]


def fixed_family(name, tkind):
    fx = FIXED[name]
    return make_family(json.loads(json.dumps(fx["spec"])), fx["regs"], fx["corpus"], tkind,
                       label=f"fixed:{name}", pos=2)


def _tsig(c):
    return [a[1] if a[0] in ("n", "T") else a[0] for a in c.get("args", [])]


def pick_other(corpus, c0):
    """A corpus call that does not warm c0's argument types (different classes, no kids)."""
    s0 = _tsig(c0)
    for c in reversed(corpus):
        if c is c0:
            continue
        s = _tsig(c)
        flat = all(not (a[0] == "n" and a[3]) for a in c.get("args", []))
        if flat and s and s0 and all(x != y for x, y in zip(s, s0)):
            return c
    return corpus[-1]


def make_family(spec, regs, corpus, tkind, label, pos=0):
    """Build the fault-free part of a scenario for target kind ``tkind``."""
    regs = [list(r) for r in regs]
    fam = {"label": label, "tkind": tkind, "spec": spec, "regs": regs, "corpus": corpus,
           "pre": [], "target": None, "offender": None, "concerned": None}
    c0 = corpus[0]
    other = pick_other(corpus, c0)
    extra, bad = "mx", "mbad"
    if tkind.startswith("invalidk_"):
        bad = "mbadk" if "mbadk" in spec["methods"] else "mbad"
        tkind = tkind.replace("invalidk_", "invalid_")
    if "mtop" not in spec["methods"]:
        # a valid, applicable, high-priority catch-all: registering it visibly changes most outcomes
        proto = spec["methods"][regs[0][0]]
        spec["methods"]["mtop"] = {
            "params": [[p[0], p[1], ["o"], p[3]] for p in proto["params"]],
            "prio": 9, "body": ["leaf"]}
    if tkind in ("copy_first_call", "copy2_first_call"):
        fam["target"] = {"op": "call", "c": c0}
        fam["copy"] = 2 if tkind == "copy2_first_call" else 1  # copy of a copy: two ancestors to lock
    elif tkind == "first_call":
        fam["target"] = {"op": "call", "c": c0}
    elif tkind == "first_resolve":
        fam["target"] = {"op": "call", "c": {"args": c0["args"], "kind": "resolve"}}
    elif tkind == "first_bound":
        fam["target"] = {"op": "call", "c": c0}
    elif tkind == "miss_call":
        fam["pre"] = [{"op": "call", "c": other}]
        fam["target"] = {"op": "call", "c": c0}
    elif tkind == "register":
        fam["pre"] = [{"op": "call", "c": other}]
        fam["target"] = {"op": "register", "mid": extra}
        fam["concerned"] = extra
    elif tkind == "unregister":
        fam["pre"] = [{"op": "call", "c": other}]
        victim = regs[min(pos, len(regs) - 1)][0]
        fam["target"] = {"op": "unregister", "mid": victim}
        fam["concerned"] = victim
    elif tkind == "replace":
        # register a *twin* (another function of identical signature): pushes the old one down
        fam["pre"] = [{"op": "call", "c": other}]
        victim = regs[min(pos, len(regs) - 1)][0]
        twin = victim + "t"
        if twin not in spec["methods"]:
            t = json.loads(json.dumps(spec["methods"][victim]))
            if t["body"][0] == "bad_next":
                t["body"] = ["leaf"]
            spec["methods"][twin] = t
        fam["target"] = {"op": "register", "mid": twin}
        fam["concerned"] = twin
    elif tkind == "invalid_first":
        regs.insert(min(pos, len(regs)), [bad])
        fam["regs"] = regs
        fam["offender"] = bad
        fam["target"] = {"op": "call", "c": c0}
    elif tkind == "invalid_rebuild":
        fam["pre"] = [{"op": "call", "c": other}]
        fam["target"] = {"op": "register", "mid": bad}
        fam["offender"] = bad
    elif tkind == "retry_after_invalid":
        regs.insert(min(pos, len(regs)), [bad])
        fam["regs"] = regs
        fam["offender"] = bad
        fam["pre"] = [{"op": "call", "c": c0}]
        fam["target"] = {"op": "call", "c": other}
    elif tkind == "rebuild_after_fix":
        regs.insert(min(pos, len(regs)), [bad])
        fam["regs"] = regs
        fam["pre"] = [{"op": "call", "c": c0}]
        fam["target"] = {"op": "unregister", "mid": bad}
        fam["concerned"] = bad
        fam["offender_in_pre"] = bad
    else:
        raise ValueError(tkind)
    return fam


def seeded_family(seed, index):
    s, rng = run_rng(ID, index, seed=seed)
    spec = gen.gen_world(rng, FEAT)
    gen.extra_class(spec)
    mids = list(spec["methods"])
    # inapplicable extra / invalid methods, same arity and names as method 0
    proto = spec["methods"][mids[0]]
    params = [[p[0], p[1], (["c", "KX"] if i == 0 else p[2]), False]
              for i, p in enumerate(proto["params"]) if p[1] != "kw"]
    spec["methods"]["mx"] = {"params": params, "prio": 0,
                             "body": [rng.choice(["leaf", "next", "rec_leaf"])]}
    badkind = weighted(rng, [("bad_next", 5), ("posclash", 2), ("kwclash", 1)])
    bparams = json.loads(json.dumps(params))
    if badkind == "posclash" and spec["meta"]["max_ar"] >= 2:
        bparams[0][0] = "a1"
        if len(bparams) >= 2 and bparams[1][1] != "kw":
            bparams[1][0] = "a0"
        bbody = ["leaf"]
    elif badkind == "kwclash":
        bparams.append(["a0", "kw", ["o"], False])
        bparams[0][0] = "z0"
        bbody = ["leaf"]
    else:
        bbody = ["bad_next"]
    spec["methods"]["mbad"] = {"params": bparams, "prio": 0, "body": bbody}
    kparams = json.loads(json.dumps(params))
    kparams.append(["a0", "kw", ["o"], False])
    kparams[0][0] = "z0"
    spec["methods"]["mbadk"] = {"params": kparams, "prio": 0, "body": ["leaf"]}
    n = rng.randint(2, len(mids))
    regs = [[m] for m in rng.sample(mids, n)]
    if bbody == ["leaf"] and bparams[0][0] == "a1" and not any(
            len(ps) >= 2 and ps[1][0] == "a1" and ps[1][1] == "pos"
            for ps in (spec["methods"][r[0]]["params"] for r in regs)):
        # no registered method declares a1 in second position: the clash would not be one
        spec["methods"]["mbad"] = {"params": json.loads(json.dumps(params)), "prio": 0,
                                   "body": ["bad_next"]}
    corpus = gen.gen_corpus(rng, spec, FEAT)
    tkind = rng.choice(TARGET_KINDS)
    pos = rng.randrange(len(regs) + 1)
    return make_family(spec, regs, corpus, tkind, label=f"seed:{s}", pos=pos)


# --------------------------------------------------------------------------
# execution of one scenario = family + one fault


def _target_thunk(h, fam):
    t = fam["target"]
    if fam.get("copy"):
        return lambda: h.w.call("c", t["c"])
    if fam["tkind"] == "first_bound":
        return lambda: h.w.call("f", {"args": t["c"]["args"], "kind": "bound"})
    return lambda: h.apply(t)


_WITH_LINES = None


def with_lines():
    """(file basename, line) of every `with` statement of the library. A line event is also
    reported for the `with` line when the block is being left, just before __exit__ runs; CPython
    does not deliver asynchronous exceptions at that boundary, so an injection there (which skips
    the release of a lock) is an artefact of line-event injection, not a possible execution."""
    global _WITH_LINES
    if _WITH_LINES is None:
        import ast
        import glob
        import os

        from ..bootstrap import SRC

        _WITH_LINES = set()
        for path in glob.glob(os.path.join(SRC, "ovld", "*.py")):
            try:
                tree = ast.parse(open(path).read())
            except SyntaxError:
                continue
            for node in ast.walk(tree):
                if isinstance(node, (ast.With, ast.AsyncWith)):
                    _WITH_LINES.add((os.path.basename(path), node.lineno))
    return _WITH_LINES


def setup(fam):
    begin_run()
    SimRLock.reset_all()
    install_source_shim()
    h = Harness(fam["spec"], fam["regs"])
    for op in fam["pre"]:
        h.apply(op)
    if fam.get("copy"):
        c = h.ov.copy()
        if fam["copy"] == 2:
            c.rename("p", "p")
            h.w.funcs["p"] = c
            c = c.copy()
        c.rename("c", "c")
        h.w.funcs["c"] = c
    if fam.get("child"):
        # a linked child (copy with linkback) that is already built: every rebuild of f also
        # rebuilds it, so the fault can strike inside the child's rebuild
        g = h.ov.copy(linkback=True)
        g.rename("g", "g")
        h.w.funcs["g"] = g
        h.w.call("g", fam["corpus"][-1])
    return h


def _sim(fam):
    return Sim(opcode_funcs=HOT_FUNCS if fam.get("opcode") else None)


def dry_run(fam):
    h = setup(fam)
    sim = _sim(fam)
    sim.trace_log = []
    hooks0 = dict(h.w.hooks.counts)
    out, exc, n = sim.run(_target_thunk(h, fam))
    hook_counts = {k: v - hooks0.get(k, 0) for k, v in h.w.hooks.counts.items()}
    return h, sim.trace_log, out, hook_counts


def enumerate_faults(fam, trace, hook_counts, tier):
    faults = []
    visits = {}
    for loc in trace:
        n = visits[loc] = visits.get(loc, 0) + 1
        if tier == "quick" and n > 2 and not loc.startswith(("core.py:", "typemap.py:")):
            # quick: every visit of every line of the state-changing modules (core, typemap); the
            # first two visits of every line elsewhere (source rewriting, type order, code generation)
            continue
        faults.append({"kind": "crash", "loc": loc, "nth": n, "exc": "interrupt"})
    m = len(faults)
    step = 1 if tier == "thorough" else 5
    for i in range(0, m, step):
        f = dict(faults[i])
        f["exc"] = "memory"
        faults.append(f)
    for hk, cnt in sorted(hook_counts.items()):
        for n in range(1, cnt + 1):
            for exc in ("runtime", "interrupt", "type", "key"):
                faults.append({"kind": "hook", "hook": hk, "nth": n, "exc": exc})
    if fam["target"]["op"] != "unregister" or True:
        for r in fam["regs"]:
            body = fam["spec"]["methods"][r[0]]["body"][0]
            if body not in ("leaf", "bad_next"):
                faults.append({"kind": "source", "mid": r[0]})
    faults.append({"kind": "none"})
    return faults


def sets_of(fam):
    """(before, after) method lists of the target operation, offender excluded where invalid."""
    before = [r for r in fam["regs"]]
    t = fam["target"]
    after = model_apply(before, t) if t["op"] != "call" else before
    return before, after


def without(regs, mid):
    return [r for r in regs if r[0] != mid]


def execute(scen):
    fam, fault = scen["family"], scen["fault"]
    h = setup(fam)
    spec, corpus = fam["spec"], fam["corpus"]
    # every probe also as a read-only query (f.resolve: which method would run)
    corpus = corpus + [dict(c, kind="resolve") for c in corpus
                       if not c.get("kw") and c.get("kind") != "resolve"
                       and not spec.get("meta", {}).get("self")]
    key = fam["label"]
    sim = _sim(fam)
    kw = {}
    if fault["kind"] == "crash":
        kw = {"crash_loc": fault["loc"], "crash_nth": fault["nth"], "crash_exc": fault["exc"]}
    elif fault["kind"] == "hook":
        base = h.w.hooks.counts.get(fault["hook"], 0)
        h.w.hooks.plan = [{"hook": fault["hook"], "nth": base + fault["nth"], "exc": fault["exc"]}]
    elif fault["kind"] == "source":
        source_shim.fail_names = {fault["mid"]}
    tout, texc, nsteps = sim.run(_target_thunk(h, fam), **kw)
    fired = bool(sim.crash_fired) or bool(h.w.hooks.fired) or source_shim.fired > 0
    source_shim.fail_names = set()
    h.w.hooks.plan = []
    target_out = ["raised", type(texc).__name__] if texc is not None else tout

    offender = fam["offender"]
    before, after = sets_of(fam)
    stats = {"fired": 1 if fired else 0}
    violation = None
    if fam.get("copy"):
        # the copy must behave as its parent's method set; then either the parent refuses a change
        # (the copy is in use) or the copy shows it
        ref = ref_outcomes(spec, before, corpus, key)
        cp = [h.w.call("c", c) for c in corpus]
        v = None
        if cp != ref:
            i = next(i for i, (a, b) in enumerate(zip(cp, ref)) if a != b)
            v = {"clause": "after-fault: the copy differs from a fresh function built from its parent's methods",
                 "probe_index": i, "probe": cp[i], "expected": ref[i], "symptom": symptom(cp[i], ref[i])}
        else:
            r = h.apply({"op": "register", "mid": "mtop"})
            cp = [h.w.call("c", c) for c in corpus]
            want = ref if r[0] != "ok" else ref_outcomes(spec, before + [["mtop", None]], corpus, key)
            if cp != want:
                i = next(i for i, (a, b) in enumerate(zip(cp, want)) if a != b)
                v = {"clause": "after-fault: the parent of a copy in use accepted a change the copy does not show",
                     "probe_index": i, "probe": cp[i], "expected": want[i], "register_result": r,
                     "symptom": symptom(cp[i], want[i]) + ":copy"}
        if v is not None:
            v.update({"tkind": fam["tkind"], "fault": fault, "target_outcome": target_out,
                      "crash_func": (sim.crash_fired or "").rsplit(":", 1)[0] if sim.crash_fired else None})
        return {"violation": v, "digest": sim.digest ^ stable_hash([target_out, cp]), "stats": stats,
                "fired": fired, "crash_fired": sim.crash_fired, "steps": nsteps}
    probes = h.probes(corpus)

    def viol(clause, **detail):
        d = {"clause": clause, "tkind": fam["tkind"], "fault": fault,
             "crash_func": (sim.crash_fired or "").rsplit(":", 1)[0] if sim.crash_fired else None,
             "target_outcome": target_out}
        d.update(detail)
        return d

    # ---- clause 0: no library lock may stay held once the faulted operation is over ------------
    held = [lk for lk in SimRLock.registry if lk.owner is not None]
    at_with = False
    if held and sim.crash_fired:
        fn, _, ln = sim.crash_fired.rsplit(":", 2)[0], None, sim.crash_fired.rsplit(":", 1)[1]
        at_with = (sim.crash_fired.split(":", 1)[0], int(ln)) in with_lines()
    if held and at_with:
        stats["with_exit_artifacts"] = 1
        for lk in held:
            lk.owner, lk.count = None, 0
    elif held:
        violation = viol("after-fault: a library lock is still held after the failed operation "
                         "(any other thread's next call would block for ever)",
                         locks_held=len(held), symptom="lock-leaked")
        for lk in held:
            lk.owner, lk.count = None, 0

    # ---- clause 1: probes right after the faulted operation ---------------------
    if violation is not None:
        pass
    elif offender is not None:
        # the method set contains an invalid method (before and/or after the target)
        valid_sets = [without(before, offender)]
        refs = [ref_outcomes(spec, s, corpus, key) for s in valid_sets]
        # "fail again with a configuration error", measured differentially: what a brand-new function
        # holding the same (invalid) method set raises on its first call
        with_off = without(before, offender) + [[offender, None]]
        cfg_ref = ref_outcomes(spec, with_off, corpus, key)
        if not any(r[0] == "err" and not r[1] and r[2][0] == "config" for r in cfg_ref):
            # (a shrinking step removed what made the offender invalid: not a scenario of this kind)
            stats["ill_formed"] = 1
            return {"violation": None, "digest": sim.digest, "stats": stats, "fired": fired,
                    "crash_fired": sim.crash_fired, "steps": nsteps}

        def is_config(p, i):
            if p[0] != "err" or p[1] or is_dispatch_verdict(p):
                return False
            return p[2][0] == "config" or (cfg_ref[i][0] == "err" and not cfg_ref[i][1]
                                           and p[2] == cfg_ref[i][2])

        for i, (c, p) in enumerate(zip(corpus, probes)):
            ok = any(p == r[i] for r in refs) or is_config(p, i)
            if not ok:
                violation = viol("after-invalid-build: probe is neither a configuration error "
                                 "nor the complete-set behaviour",
                                 probe_index=i, probe=p, expected=[r[i] for r in refs],
                                 symptom=symptom(p, refs[0][i]))
                break
    else:
        cands = [before] if before == after else [before, after]
        refs = [ref_outcomes(spec, s, corpus, key) for s in cands]
        if not any(probes == r for r in refs):
            # find first differing probe w.r.t. the closest reference
            best = max(refs, key=lambda r: sum(1 for a, b in zip(probes, r) if a == b))
            i = next(i for i, (a, b) in enumerate(zip(probes, best)) if a != b)
            violation = viol("after-fault: probes differ from the fresh reference of the complete set",
                             probe_index=i, probe=probes[i], expected=best[i],
                             symptom=symptom(probes[i], best[i]))

    # ---- clause 2: recovery -------------------------------------------------------
    if violation is None:
        steps = []
        if offender is not None:
            # a further valid registration while the offender is still there: it may be refused with
            # a configuration error, but the function must not keep serving the table without it
            s1 = without(before, offender) + [["mtop", None]]
            r = h.apply({"op": "register", "mid": "mtop"})
            probes = h.probes(corpus)
            ref = ref_outcomes(spec, s1, corpus, key)
            for i, (p, rf) in enumerate(zip(probes, ref)):
                ok = p == rf or is_config(p, i)
                if not ok:
                    violation = viol("after-invalid-build: after a further registration the function serves "
                                     "a table that lacks a registered method",
                                     probe_index=i, probe=p, expected=rf, register_result=r,
                                     symptom=symptom(p, rf))
                    break
            steps.append(({"op": "unregister", "mid": offender}, s1))
        elif fam["concerned"] is not None:
            m = fam["concerned"]
            s1 = without(before, m)
            steps.append(({"op": "unregister", "mid": m}, s1))
            if m != fam.get("offender_in_pre"):  # re-registering an invalid method must fail
                steps.append(({"op": "register", "mid": m}, s1 + [[m, None]]))
        else:
            s1 = before + [["mx", None]]
            steps.append(({"op": "register", "mid": "mx"}, s1))
            steps.append(({"op": "unregister", "mid": "mx"}, before))
        for op, expect_set in (steps if violation is None else []):
            r = h.apply(op)
            if r[0] != "ok":
                violation = viol("recovery: a later change of the method set is refused",
                                 op=op, result=r, symptom="refused:" + str(r[2][0]))
                break
            probes = h.probes(corpus)
            ref = ref_outcomes(spec, expect_set, corpus, key)
            if probes != ref:
                i = next(i for i, (a, b) in enumerate(zip(probes, ref)) if a != b)
                violation = viol("recovery: after the change the function differs from a fresh build",
                                 op=op, probe_index=i, probe=probes[i], expected=ref[i],
                                 symptom=symptom(probes[i], ref[i]))
                break
            if fam.get("child"):
                gp = [h.w.call("g", c) for c in corpus]
                if gp != ref:
                    i = next(i for i, (a, b) in enumerate(zip(gp, ref)) if a != b)
                    violation = viol("recovery: after the change the linked child differs from a fresh build",
                                     op=op, probe_index=i, probe=gp[i], expected=ref[i],
                                     symptom=symptom(gp[i], ref[i]) + ":child")
                    break
    digest = sim.digest ^ stable_hash([target_out, probes])
    return {"violation": violation, "digest": digest, "stats": stats, "fired": fired,
            "crash_fired": sim.crash_fired, "steps": nsteps}


def symptom(p, r):
    def k(o):
        if o[0] == "ok":
            return "ok"
        return o[2][0]
    return f"{k(p)}-instead-of-{k(r)}"


def run_job(job):
    tier = job["tier"]
    if job["kind"] == "fixed":
        fam = fixed_family(job["name"], job["tkind"])
    else:
        fam = seeded_family(job["seed"], job["index"])
    if job.get("child"):
        fam["child"] = True
        fam["label"] += ":child"
    if job.get("opcode"):
        fam["opcode"] = True  # crash points between the bytecodes of the publishing functions too
        fam["label"] += ":opcode"
    h, trace, dry_out, hook_counts = dry_run(fam)
    faults = enumerate_faults(fam, trace, hook_counts, tier)
    stride, part = job["stride"], job["part"]
    stats = {"evaluations": 0, "fired": 0, "families": 1 if part == 0 else 0,
             "by_fault_kind": {}, "by_tkind": {fam["tkind"]: 0},
             "opcode_evaluations": 0,
             "crash_points": [], "triples": [], "steps": 0, "nofault_mismatch": 0}
    violations = []
    nviol = 0
    dig = 0
    # soundness: the fault-free run must satisfy the oracle, otherwise skip the family
    r0 = execute({"family": fam, "fault": {"kind": "none"}})
    if r0["violation"] is not None and fam["offender"] is None and not fam.get("offender_in_pre"):
        stats["nofault_mismatch"] = 1  # (per job: every part of the family is skipped)
        if True:
            stats.setdefault("nofault_samples", []).append(
                json.dumps({"label": fam["label"], "tkind": fam["tkind"],
                            "clause": r0["violation"]["clause"]})[:300])
        return {"stats": stats, "violations": [], "nviolations": 0, "digest": r0["digest"],
                "samples": []}
    samples = []
    for i in range(part, len(faults), stride):
        scen = {"family": fam, "fault": faults[i]}
        r = execute(scen)
        stats["evaluations"] += 1
        stats["opcode_evaluations"] += 1 if fam.get("opcode") else 0
        stats["steps"] += r["steps"]
        fk = faults[i]["kind"] + (":" + faults[i].get("exc", "") if faults[i].get("exc") else "")
        if r["fired"]:
            stats["fired"] += 1
            stats["by_fault_kind"][fk] = stats["by_fault_kind"].get(fk, 0) + 1
            if r["crash_fired"]:
                stats["crash_points"].append(r["crash_fired"])
                stats["triples"].append(f"{fam['tkind']}|{r['crash_fired']}|{fk}")
            else:
                stats["triples"].append(f"{fam['tkind']}|{json.dumps(faults[i], sort_keys=True)}")
        stats["by_tkind"][fam["tkind"]] += 1
        dig = (dig * 1000003 + r["digest"]) & ((1 << 61) - 1)
        if r["violation"]:
            nviol += 1
            if len(violations) < 6:
                violations.append((scen, r["violation"]))
        elif not samples and r["fired"]:
            samples.append({"family": fam["label"], "tkind": fam["tkind"], "regs": fam["regs"],
                            "target": fam["target"], "fault": faults[i],
                            "probes_ok": len(fam["corpus"])})
    return {"stats": stats, "violations": violations, "nviolations": nviol, "digest": dig,
            "samples": samples}


def jobs(tier, seed):
    stride = STRIDES[tier]
    if tier == "quick":
        # every crash point of two fixed worlds (the third, two-argument world: four target kinds),
        # plus a 1-in-8 sample of the crash points of 40 seeded families
        for name in FIXED:
            for tk in TARGET_KINDS:
                if name == "multi" and tk not in ("first_call", "miss_call", "register", "invalid_first",
                                                    "invalidk_rebuild"):
                    continue
                if name != "chain" and tk in ("first_resolve", "copy_first_call", "copy2_first_call"):
                    continue
                for part in range(stride):
                    yield {"kind": "fixed", "name": name, "tkind": tk, "tier": tier,
                           "stride": stride, "part": part}
        for tk in ("register", "invalid_rebuild", "invalidk_rebuild"):
            for part in range(stride):
                yield {"kind": "fixed", "name": "chain", "tkind": tk, "tier": tier,
                       "stride": stride * 2, "part": part, "child": True}
        for index in range(40):
            yield {"kind": "seeded", "seed": seed, "index": index, "tier": tier,
                   "stride": 8, "part": (index + seed) % 8}
    else:
        for name in FIXED:
            for tk in TARGET_KINDS:
                for part in range(stride):
                    yield {"kind": "fixed", "name": name, "tkind": tk, "tier": tier,
                           "stride": stride, "part": part}
        for tk in TARGET_KINDS:
            for part in range(stride):
                yield {"kind": "fixed", "name": "chain", "tkind": tk, "tier": tier,
                       "stride": stride, "part": part, "opcode": True}
        for tk in ("register", "unregister", "replace", "invalid_rebuild", "invalidk_rebuild",
                   "miss_call"):
            for part in range(stride):
                yield {"kind": "fixed", "name": "chain", "tkind": tk, "tier": tier,
                       "stride": stride, "part": part, "child": True}
        index = 0
        while True:
            for part in range(4):
                yield {"kind": "seeded", "seed": seed, "index": index, "tier": tier,
                       "stride": 4, "part": part, "opcode": index % 3 == 0}
            index += 1


# --------------------------------------------------------------------------
# shrinking / classification


def vclass(scen, v):
    f = v["fault"]
    return [v["clause"], v["tkind"], f["kind"], v.get("crash_func"), v.get("symptom")]


def signature(scen, v):
    f = v["fault"]
    return {"clause": v["clause"], "tkind": v["tkind"], "fault_kind": f["kind"],
            "crash_func": v.get("crash_func"), "symptom": v.get("symptom")}


def size(scen):
    fam = scen["family"]
    return len(fam["regs"]) * 10 + len(fam["corpus"]) * 3 + len(fam["pre"]) + scen["fault"].get("nth", 0)


def shrink_moves(scen):
    fam = scen["family"]
    keep = {fam["offender"], fam["concerned"], fam.get("offender_in_pre")}
    for i in range(len(fam["corpus"]) - 1, -1, -1):
        if len(fam["corpus"]) > 1:
            f2 = dict(fam)
            f2["corpus"] = fam["corpus"][:i] + fam["corpus"][i + 1:]
            f2["label"] = fam["label"] + "'"
            yield {"family": f2, "fault": scen["fault"]}
    for i in range(len(fam["regs"]) - 1, -1, -1):
        if fam["regs"][i][0] in keep or len(fam["regs"]) <= 1:
            continue
        f2 = dict(fam)
        f2["regs"] = fam["regs"][:i] + fam["regs"][i + 1:]
        f2["label"] = fam["label"] + "'"
        yield {"family": f2, "fault": scen["fault"]}
    if scen["fault"].get("nth", 1) > 1:
        f = dict(scen["fault"])
        f["nth"] -= 1
        yield {"family": fam, "fault": f}


def coverage(agg):
    triples = agg.get("triples", set())
    cps = agg.get("crash_points", set())
    by_func = {}
    for cp in cps:
        k = cp.rsplit(":", 1)[0]
        by_func[k] = by_func.get(k, 0) + 1
    return {
        "evaluations": int(agg.get("evaluations", 0)),
        "distinct_nontrivial": len(triples),
        "rule": "one evaluation = one family (world, method set, target operation) re-run with one "
                "fault; non-trivial = the fault actually fired; distinct = distinct (target kind, "
                "crash location file:function:line | hook/source fault descriptor, fault kind) triples",
        "faults_fired": int(agg.get("fired", 0)),
        "faults_fired_by_kind": agg.get("by_fault_kind", {}),
        "runs_by_target_kind": agg.get("by_tkind", {}),
        "families": int(agg.get("families", 0)),
        "evaluations_at_bytecode_granularity": int(agg.get("opcode_evaluations", 0)),
        "families_skipped_nofault_mismatch": int(agg.get("nofault_mismatch", 0)),
        "nofault_mismatch_samples": sorted(agg.get("nofault_samples", set()))[:5],
        "distinct_crash_locations": len(cps),
        "crash_locations_by_function": dict(sorted(by_func.items())),
        "simulated_steps": int(agg.get("steps", 0)),
        "fault_kinds_not_present_in_system": ["disk write", "network", "clock"],
        "real_components": ["ovld (all of it)", "inspect/ast/graphlib/linecache"],
        "simulated_components": ["crash points (trace function)", "user hook faults",
                                 "inspect.getsource failure", "set iteration order (canonical)"],
        "exhaustive": False,
    }
