"""C05 - after register/unregister, behaviour equals a freshly built function.

Histories of register / re-register / unregister / call operations on (A) an
Ovld, (B) the public MultiTypeMap, (C) TypeMap. A method-table model gives the
surviving registrations after each operation; every observation is compared
with a brand-new function (or table) built from exactly those registrations.
"""

import json

from .. import gen
from ..common import Harness, begin_run, model_apply, ref_outcomes
from ..rng import run_rng, stable_hash, weighted
from ..world import World

ID = "C05"
NAME = "c05"
LEVEL = "exploration"
BUDGET = {"quick": 70, "thorough": 900}
ASSUMPTIONS = [
    "reference = the same library: a fresh Ovld / MultiTypeMap / TypeMap built by registering the model's "
    "surviving registrations in their original relative order",
    "only valid method sets are generated (build failures are C18's subject); no return annotations",
    "iteration order canonicalised through the OVLD_VERIF seam",
]

FEAT = gen.feat(
    p_self=0.1,
    bodies={"next_try": 0.6, "leaf": 4, "next": 3.5, "rec": 1.5, "fnext": 0.4, "next2": 0.3, "rec_next": 0.6},
    p_kw=0.12, p_optional=0.12, ncorpus=(4, 7), nmeth=(4, 8), p_dup_sig=0.1, p_prio=0.4,
)

# --------------------------------------------------------------------------
# (A) Ovld histories


def gen_ovld(seed, index):
    s, rng = run_rng(ID, index, seed=seed, salt="ovld")
    spec = gen.gen_world(rng, FEAT)
    mids = list(spec["methods"])
    # twins: identical signature, different function and body
    for m in list(mids):
        if rng.random() < 0.35:
            t = json.loads(json.dumps(spec["methods"][m]))
            first_cls = spec["meta"]["flavour"][0] == "cls"
            t["body"] = [rng.choice(["leaf", "next"] + (["rec"] if first_cls else []))]
            if rng.random() < 0.3:
                # identical signature, other positional parameter names (names are not part of it)
                for q in t["params"]:
                    if q[1] == "pos" and q[0].startswith("a"):
                        q[0] = "b" + q[0][1:]
            spec["methods"][m + "t"] = t
    pool = list(spec["methods"])
    corpus = gen.gen_corpus(rng, spec, FEAT)
    ops = []
    regs = []
    # a method that lets the harness change the method set *during* a call and then recurses
    # (not in worlds with type[...] positions: whether a position is keyed with type() or by the
    # passed class itself is a property of the whole method set, baked into the call sites of a
    # body that is already running)
    can_mut = spec["meta"]["min_ar"] == 1 and "type" not in spec["meta"]["flavour"] \
        and not any(q[2] and q[2][0] == "t" for m in spec["methods"].values() for q in m["params"])
    kid_pool = [c["args"][0] for c in corpus if len(c.get("args", [])) == 1 and not c.get("kw")]
    if can_mut:
        gen.extra_class(spec, "KM")
        spec["methods"]["mmut"] = {"params": [["a0", "pos", ["c", "KM"], False]], "prio": 50,
                                   "body": ["mut_rec"]}
        ops.append({"op": "register", "mid": "mmut"})
    for m in rng.sample(pool, rng.randint(1, min(3, len(pool)))):
        ops.append({"op": "register", "mid": m})
        regs.append(m)
    n = rng.randint(4, 24)
    last_obs = None
    # (not with f.next(): a method inherited by the child still names the parent there)
    has_fnext = any(m["body"][0] == "fnext" for m in spec["methods"].values())
    derive_at = rng.randint(1, n) if (rng.random() < 0.3 and not has_fnext) else None
    child = False
    while len(ops) < n:
        if derive_at is not None and len(ops) >= derive_at and not child:
            # a linked child (copy with linkback): every change to f must show up in it too
            o = {"op": "derive_lb"}
            srcs = [m for m in pool if spec["methods"][m]["params"]
                    and spec["methods"][m]["params"][0][1] == "pos"]
            if srcs and rng.random() < 0.6:
                # the child gets a method of its own (for a class no corpus argument is related to):
                # its behaviour on the corpus stays "whatever the parent's current methods say"
                gen.extra_class(spec, "KG")
                params = json.loads(json.dumps(spec["methods"][rng.choice(srcs)]["params"]))
                params[0][2] = ["c", "KG"]
                spec["methods"]["mown"] = {"params": params, "prio": 0, "body": ["leaf"]}
                o["own"] = rng.choice(["g", "gg", "g"])
            ops.append(o)
            child = True
        k = weighted(rng, [("obs", 45), ("reg", 22), ("unreg", 15), ("rereg", 10), ("prio", 8),
                           ("call_mut", 12 if (can_mut and kid_pool) else 0)])
        if k == "call_mut":
            if regs and rng.random() < 0.4:
                m = rng.choice(regs)
                mut = {"op": "unregister", "mid": m}
                regs = [x for x in regs if x != m]
            else:
                m = rng.choice(pool)
                mut = {"op": "register", "mid": m}
                regs.append(m)
            kids = [rng.choice(kid_pool) for _ in range(rng.randint(1, 2))]
            ops.append({"op": "call_mut", "kids": kids, "mut": mut})
            last_obs = None
            continue
        if last_obs is not None and rng.random() < 0.5:
            # mutate, then observe the same call again
            k2 = weighted(rng, [("reg", 5), ("unreg", 3), ("rereg", 2)])
            k = k2
            follow = last_obs
            last_obs = None
        else:
            follow = None
        if k == "obs":
            c = rng.choice(corpus)
            kind = "resolve" if (rng.random() < 0.12 and not c.get("kw")) else "call"
            o = {"op": "call", "c": dict(c, kind=kind)}
            if child and rng.random() < 0.5:
                o["on"] = rng.choice(["g", "gg"])
            ops.append(o)
            last_obs = c if rng.random() < 0.7 else None
            continue
        if k == "reg":
            m = rng.choice(pool)
            ops.append({"op": "register", "mid": m})
            regs.append(m)
        elif k == "unreg":
            if not regs:
                continue
            m = rng.choice(regs)
            ops.append({"op": "unregister", "mid": m})
            regs = [x for x in regs if x != m]
        elif k == "rereg":
            if not regs:
                continue
            m = rng.choice(regs)
            tw = m + "t" if (m + "t") in spec["methods"] else (m[:-1] if m.endswith("t") else m)
            m2 = tw if rng.random() < 0.7 else m
            ops.append({"op": "register", "mid": m2})
            regs.append(m2)
        elif k == "prio":
            m = rng.choice(pool)
            ops.append({"op": "register", "mid": m, "prio": rng.choice([-2, 1, 3])})
            regs.append(m)
        if follow is not None:
            ops.append({"op": "call", "c": follow})
    return {"level": "ovld", "label": f"seed:{s}", "spec": spec, "ops": ops, "corpus": corpus}


def execute_ovld(scen):
    begin_run()
    spec = scen["spec"]
    h = Harness(spec, [])
    regs = []
    own_in = set()
    violation = None
    trace = []
    nobs = 0
    mut_after_obs = False
    seen_obs = False
    for i, op in enumerate(scen["ops"]):
        if op["op"] == "call_mut":
            # f(KM(kids)) runs mmut, which applies the mutation and then recurses on the kids:
            # the nested calls are "later calls" and must behave as on a fresh function built
            # from the method set after the mutation
            pending = [op["mut"]]
            applied = []

            def MUT():
                if pending:
                    m = pending.pop()
                    applied.append(h.apply(m))

            h.w.mod.MUT = MUT
            s1 = model_apply(regs, op["mut"])
            out = h.w.call("f", {"args": [["n", "KM", 0, op["kids"]]]})
            h.w.mod.MUT = lambda: None
            nobs += 1
            seen_obs = True
            mut_after_obs = True
            if not applied:
                violation = {"clause": "harness: the in-call mutation did not run", "op_index": i,
                             "observed": out, "symptom": "harness", "level": "ovld"}
                break
            regs = s1
            log, res, exp = ["mmut"], [], None
            for kid in op["kids"]:
                r = ref_outcomes(spec, regs, [{"args": [kid]}], scen["label"])[0]
                log = log + r[1]
                if r[0] != "ok":
                    if r[2] == ["other", "RecursionError"]:
                        log = [x for x in log if x != "..."][:2] + ["..."]  # (as World.call truncates)
                    exp = ["err", log, r[2]]
                    break
                res.append(r[2])
            if exp is None:
                exp = ["ok", log, ["mmut", res]]
            trace.append(out)
            if applied[0][0] != "ok":
                violation = {"clause": "a valid change of the method set was refused",
                             "op_index": i, "op": op, "result": applied[0], "symptom": "refused",
                             "level": "ovld"}
                break
            if out != exp:
                violation = {"clause": "calls nested in a method that changed the method set differ from a "
                                       "freshly built function", "op_index": i, "op": op,
                             "observed": out, "expected": exp, "regs": regs,
                             "symptom": symptom(out, exp) + ":in-call", "level": "ovld"}
                break
            continue
        if op["op"] == "derive_lb":
            if "g" not in h.w.funcs:
                g = h.ov.copy(linkback=True)
                g.rename("g", "g")
                h.w.funcs["g"] = g
                gg = g.copy(linkback=True)  # and a linked grandchild
                gg.rename("gg", "gg")
                h.w.funcs["gg"] = gg
                if op.get("own") and "mown" in spec["methods"]:
                    h.w.register(op["own"], "mown")
                    # the reference of a child is a fresh function holding the parent's current
                    # methods and then the child's own one
                    own_in.update({"g", "gg"} if op["own"] == "g" else {"gg"})
            trace.append("derive")
            continue
        if op["op"] == "call":
            if op.get("on") in ("g", "gg") and op["on"] in h.w.funcs:
                out = h.w.call(op["on"], op["c"])
                ref = ref_outcomes(spec, regs + ([["mown", None]] if op["on"] in own_in else []),
                                   [op["c"]], scen["label"])[0]
            else:
                out = h.apply(op)
                ref = ref_outcomes(spec, regs, [op["c"]], scen["label"])[0]
            trace.append(out)
            nobs += 1
            seen_obs = True
            if out != ref:
                violation = {"clause": "a call after a history of changes differs from a freshly built function",
                             "op_index": i, "call": op["c"], "observed": out, "expected": ref,
                             "regs": regs, "symptom": symptom(out, ref), "level": "ovld"}
                break
        else:
            r = h.apply(op)
            regs = model_apply(regs, op)
            trace.append(r)
            if seen_obs:
                mut_after_obs = True
            if r[0] != "ok":
                violation = {"clause": "a valid change of the method set was refused",
                             "op_index": i, "op": op, "result": r, "symptom": "refused", "level": "ovld"}
                break
    for child_name in ("g", "gg"):
        if violation is not None or child_name not in h.w.funcs:
            continue
        probes = [h.w.call(child_name, c) for c in scen["corpus"]]
        ref = ref_outcomes(spec, regs + ([["mown", None]] if child_name in own_in else []),
                           scen["corpus"], scen["label"])
        if probes != ref:
            i = next(i for i, (a, b) in enumerate(zip(probes, ref)) if a != b)
            violation = {"clause": "after the history a linked child differs from a freshly built function",
                         "probe_index": i, "call": scen["corpus"][i], "observed": probes[i],
                         "expected": ref[i], "regs": regs, "symptom": symptom(probes[i], ref[i]),
                         "level": "ovld"}
    if violation is None:
        probes = h.probes(scen["corpus"])
        ref = ref_outcomes(spec, regs, scen["corpus"], scen["label"])
        trace.append(probes)
        if probes != ref:
            i = next(i for i, (a, b) in enumerate(zip(probes, ref)) if a != b)
            violation = {"clause": "after the history the function differs from a freshly built function",
                         "probe_index": i, "call": scen["corpus"][i], "observed": probes[i],
                         "expected": ref[i], "regs": regs, "symptom": symptom(probes[i], ref[i]),
                         "level": "ovld"}
    return {"violation": violation, "digest": stable_hash(trace), "nobs": nobs,
            "nontrivial": mut_after_obs, "final_regs": len(regs), "trace": trace}


# --------------------------------------------------------------------------
# (B) MultiTypeMap and (C) TypeMap histories

CLASSES = [["K0", [], False], ["K1", ["K0"], False], ["K2", ["K0"], False],
           ["K3", ["K1", "K2"], False], ["K4", ["K1"], False], ["K5", [], False]]
CNAMES = [c[0] for c in CLASSES] + ["object"]


def gen_mtm(seed, index):
    s, rng = run_rng(ID, index, seed=seed, salt="mtm")
    arity = rng.choice([1, 1, 2, 2, 3])
    ops = []
    nh = 0
    n = rng.randint(4, 22)
    lookups = []
    optional = arity >= 2 and rng.random() < 0.4
    with_dep = rng.random() < 0.3
    for _ in range(rng.randint(2, 5)):
        ln = rng.randint(1, arity) if optional else arity
        lookups.append([rng.choice(CNAMES[:-1] + ["int"]) for _ in range(ln)])

    def reg_op(h):
        op = {"op": "reg", "types": [rng.choice(CNAMES) for _ in range(arity)],
              "prio": rng.choice([0, 0, 0, 1, 2]), "h": h}
        if with_dep and rng.random() < 0.35:
            # a value-dependent type (Equals[0] / Equals[1], bound int): lookups of int then return a
            # generated value-checking dispatcher
            op["types"][rng.randrange(arity)] = rng.choice(["E0", "E1"])
        if optional and rng.random() < 0.6:
            op["req"] = rng.randint(1, arity - 1)
        return op

    last = None
    while len(ops) < n:
        r = rng.random()
        if last is not None and rng.random() < 0.55:
            # register something, then look the same key up again
            ops.append(reg_op(nh))
            nh += 1
            ops.append({"op": last["op"], "types": last["types"], **({"h": last["h"]} if "h" in last else {})})
            last = None
            continue
        if r < 0.4 or nh == 0:
            ops.append(reg_op(nh))
            nh += 1
        elif r < 0.8:
            op = {"op": "get", "types": rng.choice(lookups)}
            ops.append(op)
            last = op
        else:
            op = {"op": "getnext", "h": rng.randrange(nh), "types": rng.choice(lookups)}
            ops.append(op)
            last = op
    return {"level": "mtm", "label": f"seed:{s}", "ops": ops}


def _mk_handlers(n):
    hs = []
    for i in range(n):
        ns = {}
        exec(f"def h{i}(*args):\n    return {i}\n", ns)
        hs.append(ns[f"h{i}"])
    return hs


def _classes():
    from ovld.dependent import Equals

    w = World({"classes": CLASSES, "methods": {}})
    return {n: getattr(w.mod, n) for n in CNAMES if n != "object"} | {
        "object": object, "int": int, "E0": Equals(0), "E1": Equals(1)}


def _mtm_outcome(fn, nargs=1):
    import re as _re

    try:
        r = fn()
        name = getattr(r, "__name__", str(r))
        if not _re.fullmatch(r"h\d+", name):
            # a generated value-checking dispatcher (its name carries a counter): compare by what it
            # does on sample values
            vals = []
            for v in (0, 1, 2):
                try:
                    vals.append(r(*([v] * nargs)))
                except Exception as e:  # noqa: BLE001
                    vals.append(type(e).__name__)
            return ["ok", "dispatcher", vals]
        return ["ok", name]
    except KeyError as e:
        cands = e.args[1] if len(e.args) > 1 else ()
        if not cands:
            return ["err", "nomethod"]
        return ["err", "ambiguous", sorted(getattr(c.handler, "__name__", str(c.handler)) for c in cands)]
    except Exception as e:  # noqa: BLE001
        return ["err", "other", type(e).__name__]


def _mksig(types, prio, req=None):
    from ovld.core import Signature

    # (req < len(types): trailing optional positional parameters - the handler also answers
    # shorter argument tuples)
    return Signature(types=tuple(types), return_type=None,
                     req_pos=len(types) if req is None else req, max_pos=len(types),
                     req_names=frozenset(), vararg=False, priority=prio)


def execute_mtm(scen):
    from ovld import MultiTypeMap

    begin_run()
    cl = _classes()
    nh = 1 + max([op.get("h", 0) for op in scen["ops"]] + [0])
    hs = _mk_handlers(nh)
    tm = MultiTypeMap()
    regs = []
    violation = None
    trace = []
    mut_after_obs = seen = False

    def lookup(table, op, handlers):
        tup = tuple(cl[t] for t in op["types"])
        if op["op"] == "getnext":
            tup = (handlers[op["h"]].__code__,) + tup
        return _mtm_outcome(lambda: table[tup], len(op["types"]))

    for i, op in enumerate(scen["ops"]):
        if op["op"] == "reg":
            sig = _mksig([cl[t] for t in op["types"]], op["prio"], op.get("req"))
            tm.register(sig, hs[op["h"]])
            regs.append(op)
            if seen:
                mut_after_obs = True
            trace.append("reg")
        else:
            seen = True
            out = lookup(tm, op, hs)
            fresh = MultiTypeMap()
            for r in regs:
                fresh.register(_mksig([cl[t] for t in r["types"]], r["prio"], r.get("req")), hs[r["h"]])
            ref = lookup(fresh, op, hs)
            trace.append(out)
            if out != ref:
                violation = {"clause": "a lookup after a history of registrations differs from a fresh table",
                             "op_index": i, "op": op, "observed": out, "expected": ref,
                             "symptom": f"{out[1] if out[0] == 'err' else 'ok'}-instead-of-"
                                        f"{ref[1] if ref[0] == 'err' else 'ok'}",
                             "level": "mtm"}
                break
    return {"violation": violation, "digest": stable_hash(trace), "nobs": sum(1 for o in scen["ops"] if o["op"] != "reg"),
            "nontrivial": mut_after_obs, "final_regs": len(regs)}


def gen_tm(seed, index):
    s, rng = run_rng(ID, index, seed=seed, salt="tm")
    ops = []
    nh = 0
    for _ in range(rng.randint(3, 16)):
        if rng.random() < 0.45 or nh == 0:
            ops.append({"op": "reg", "types": [rng.choice(CNAMES)], "h": nh % 5})
            nh += 1
        else:
            ops.append({"op": "get", "types": [rng.choice(CNAMES[:-1] + ["int"])]})
    return {"level": "tm", "label": f"seed:{s}", "ops": ops}


def execute_tm(scen):
    from ovld import TypeMap

    begin_run()
    cl = _classes()
    tm = TypeMap()
    regs = []
    violation = None
    trace = []
    mut_after_obs = seen = False

    def lookup(table, op):
        try:
            r = table[cl[op["types"][0]]]
            return ["ok", sorted((str(k), v) for k, v in r.items())]
        except KeyError:
            return ["err", "nomethod"]

    for i, op in enumerate(scen["ops"]):
        if op["op"] == "reg":
            tm.register(cl[op["types"][0]], f"h{op['h']}")
            regs.append(op)
            if seen:
                mut_after_obs = True
        else:
            seen = True
            out = lookup(tm, op)
            fresh = TypeMap()
            for r in regs:
                fresh.register(cl[r["types"][0]], f"h{r['h']}")
            ref = lookup(fresh, op)
            trace.append(out)
            if out != ref:
                violation = {"clause": "a TypeMap lookup after registrations differs from a fresh TypeMap",
                             "op_index": i, "op": op, "observed": out, "expected": ref,
                             "symptom": "tm-mismatch", "level": "tm"}
                break
    return {"violation": violation, "digest": stable_hash(trace), "nobs": len(trace),
            "nontrivial": mut_after_obs, "final_regs": len(regs)}


# --------------------------------------------------------------------------


def execute(scen):
    return {"ovld": execute_ovld, "mtm": execute_mtm, "tm": execute_tm}[scen["level"]](scen)


def symptom(p, r):
    def k(o):
        return "ok" if o[0] == "ok" else o[2][0]
    return f"{k(p)}-instead-of-{k(r)}"


GEN = {"ovld": gen_ovld, "mtm": gen_mtm, "tm": gen_tm}


def run_job(job):
    stats = {"evaluations": 0, "observations": 0, "nontrivial": [], "by_level": {}, "ops": 0,
             "states": []}
    violations = []
    nviol = 0
    dig = 0
    samples = []
    for index in range(job["index"], job["index"] + job["count"]):
        scen = GEN[job["level"]](job["seed"], index)
        r = execute(scen)
        stats["evaluations"] += 1
        stats["observations"] += r["nobs"]
        stats["ops"] += len(scen["ops"])
        stats["by_level"][job["level"]] = stats["by_level"].get(job["level"], 0) + 1
        if r["nontrivial"]:
            stats["nontrivial"].append(stable_hash([job["level"], scen["ops"]]))
        dig = (dig * 1000003 + r["digest"]) & ((1 << 61) - 1)
        if r["violation"]:
            nviol += 1
            if len(violations) < 5:
                violations.append((scen, r["violation"]))
        elif not samples and r["nontrivial"]:
            samples.append({"level": scen["level"], "ops": scen["ops"][:12]})
    return {"stats": stats, "violations": violations, "nviolations": nviol, "digest": dig,
            "samples": samples}


def jobs(tier, seed):
    if tier == "quick":
        for i in range(0, 4000, 50):
            yield {"level": "ovld", "seed": seed, "index": i, "count": 50}
        for i in range(0, 6000, 250):
            yield {"level": "mtm", "seed": seed, "index": i, "count": 250}
        for i in range(0, 2000, 250):
            yield {"level": "tm", "seed": seed, "index": i, "count": 250}
    else:
        i = j = k = 0
        while True:
            for _ in range(6):
                yield {"level": "ovld", "seed": seed, "index": i, "count": 50}
                i += 50
            yield {"level": "mtm", "seed": seed, "index": j, "count": 250}
            j += 250
            yield {"level": "tm", "seed": seed, "index": k, "count": 250}
            k += 250


def vclass(scen, v):
    return [scen["level"], v["clause"][:50], v.get("symptom")]


def op_pattern(scen, v):
    """Operation pattern of the minimised history (kinds only)."""
    return ",".join(o["op"] for o in scen["ops"])[:120]


def signature(scen, v):
    return {"level": scen["level"], "clause": v["clause"], "symptom": v.get("symptom"),
            "pattern": op_pattern(scen, v)}


def size(scen):
    return len(scen["ops"]) * 5 + len(scen.get("corpus", [])) + len(json.dumps(scen["ops"])) // 40


def shrink_moves(scen):
    ops = scen["ops"]
    if len(ops) > 6:
        for lo, hi in ((0, len(ops) // 2), (len(ops) // 2, len(ops))):
            s2 = dict(scen)
            s2["ops"] = ops[:lo] + ops[hi:]
            s2["label"] = scen["label"] + "'"
            yield s2
    for i in range(len(ops) - 1, -1, -1):
        s2 = dict(scen)
        s2["ops"] = ops[:i] + ops[i + 1:]
        s2["label"] = scen["label"] + "'"
        yield s2
    if scen["level"] == "ovld":
        for i in range(len(scen["corpus"]) - 1, -1, -1):
            s2 = dict(scen)
            s2["corpus"] = scen["corpus"][:i] + scen["corpus"][i + 1:]
            s2["label"] = scen["label"] + "'"
            yield s2


def coverage(agg):
    return {
        "evaluations": int(agg.get("evaluations", 0)),
        "distinct_nontrivial": len(agg.get("nontrivial", set())),
        "rule": "one evaluation = one history; non-trivial = contains at least one mutation after an observation; "
                "distinct by operation sequence",
        "observations_compared_with_fresh_build": int(agg.get("observations", 0)),
        "operations": int(agg.get("ops", 0)),
        "histories_by_level": agg.get("by_level", {}),
        "fault_kinds": "none (histories only; build failures are exercised by C18)",
        "real_components": ["ovld.Ovld", "ovld.MultiTypeMap", "ovld.TypeMap", "recode (method rewriting)"],
        "simulated_components": ["operation history", "method-table reference model", "set iteration order (canonical)"],
        "exhaustive": False,
    }
