"""C04 - caching is invisible: a call's outcome never depends on earlier calls.

Histories of calls (successful, unmatched, ambiguous, nested through recurse /
call_next, resolve) against one function with a fixed method set. Every
operation must give the outcome the same call has as the very first call on a
freshly built function. A separate fault-injecting configuration makes one call
of the history suffer a transient hook failure or an interrupt at a seeded step
inside its resolution; that call is exempt, every other one is not.
"""

import json
import random

from .. import gen
from .. import pristine
from ..common import Harness, begin_run, ref_outcomes
from ..rng import run_rng, stable_hash, weighted
from ..trace import Sim

ID = "C04"
USE_PRISTINE = True
NAME = "c04"
LEVEL = "exploration"
BUDGET = {"quick": 70, "thorough": 900}
ASSUMPTIONS = [
    "reference = the same call as the first call on a freshly built function (same library)",
    "method set fixed during a history; iteration order canonicalised through the OVLD_VERIF seam",
    "in the fault configuration only the faulted call is exempt from comparison",
]

FEAT = gen.feat(
    p_self=0.12,
    bodies={"next_try": 0.6, "leaf": 3, "next": 4, "rec": 2, "fnext": 0.6, "next2": 0.5, "next_other": 0.8,
            "rec_next": 0.8},
    p_kw=0.2, p_optional=0.2, ncorpus=(4, 8), nmeth=(3, 8), p_dup_sig=0.1, p_prio=0.35,
    p_int_pos=0.15, p_type_pos=0.15,
)


def cache_state(h):
    """Abstraction of the three cache layers: sets of keys."""
    ov = h.ov
    m = getattr(ov, "map", None)
    if m is None:
        return 0

    def kname(k):
        if isinstance(k, tuple):
            return tuple(kname(x) for x in k)
        if hasattr(k, "co_name"):
            return "code:" + k.co_name
        return getattr(k, "__name__", None) or str(k)

    keys = sorted(repr(kname(k)) for k in m.keys())
    errs = sorted(repr(kname(k)) for k in m.errors.keys())
    tms = sorted((str(i), sorted(repr(kname(k)) for k in tm.keys())) for i, tm in m.maps.items())
    return stable_hash([keys, errs, tms])


def gen_scenario(seed, index, faulty):
    s, rng = run_rng(ID, index, seed=seed, salt="fault" if faulty else "plain")
    spec = gen.gen_world(rng, FEAT)
    mids = list(spec["methods"])
    regs = [[m] for m in rng.sample(mids, rng.randint(2, len(mids)))]
    corpus = gen.gen_corpus(rng, spec, FEAT)
    n = weighted(rng, [(rng.randint(1, 6), 3), (rng.randint(5, 16), 4), (rng.randint(15, 40), 2)])
    shape = weighted(rng, [("random", 5), ("errors_first", 3), ("pairs", 2), ("reverse_repeat", 2)])
    hist = []
    if shape == "pairs":
        while len(hist) < n:
            a, b = rng.choice(corpus), rng.choice(corpus)
            hist += [a, b, a]
    elif shape == "reverse_repeat":
        order = list(corpus)
        rng.shuffle(order)
        hist = (order + order[::-1] + order)[: max(n, len(order))]
    else:
        hist = [rng.choice(corpus) for _ in range(n)]
    ops = []
    for c in hist:
        c = dict(c)
        if rng.random() < 0.1 and not c.get("kw"):
            c["kind"] = "resolve"
        ops.append(c)
    if rng.random() < 0.06:
        # a burst of first-time argument types (fresh subclasses) somewhere in the history: a cache
        # that evicts must not change what later calls do
        ops.insert(rng.randrange(len(ops) + 1), {"flood": rng.choice([60, 150, 300]),
                                                 "base": rng.randrange(len(corpus))})
    scen = {"label": f"seed:{s}", "spec": spec, "regs": regs, "corpus": corpus, "history": ops,
            "shape": shape, "fault": None}
    if rng.random() < 0.3 and not any(m["body"][0] == "fnext" for m in spec["methods"].values()):
        # a second, independent function in the same module (possibly with the same name, as
        # `@f.variant def f` or a factory would produce); part of the history goes to it
        regs2 = [[m] for m in rng.sample(mids, rng.randint(2, len(mids)))]
        scen["second"] = {"regs": regs2, "same_name": rng.random() < 0.6}
        for c in ops:
            if rng.random() < 0.4:
                c["on"] = "g"
    if faulty:
        at = rng.choice([j for j, o in enumerate(ops) if "flood" not in o])
        kind = weighted(rng, [("crash", 6), ("hook", 4)])
        if not spec["hooks"] and not spec["deps"]:
            kind = "crash"
        scen["fault"] = {"at": at, "kind": kind, "frac": rng.random(),
                         "exc": rng.choice(["interrupt", "memory"]) if kind == "crash"
                         else rng.choice(["runtime", "type", "key", "interrupt"])}
    scen["ghost"] = rng.random() < 0.3
    return scen


def sort_errors_first(scen):
    """For the 'errors_first' shape: stable-sort the history so that failing calls come first."""
    if scen["shape"] != "errors_first":
        return
    refs = {json.dumps(c, sort_keys=True): ref_outcomes(scen["spec"], scen["regs"], [c], scen["label"])[0]
            for c in scen["history"]}
    scen["history"].sort(key=lambda c: 0 if refs[json.dumps(c, sort_keys=True)][0] == "err" else 1)
    scen["shape"] = "errors_first*"


def resolve_fault(scen):
    """Turn the fractional fault position into a concrete step / invocation number (dry run)."""
    f = scen["fault"]
    if f is None or "k" in f or "nth" in f:
        return
    begin_run()
    h = Harness(scen["spec"], scen["regs"])
    for c in scen["history"][: f["at"]]:
        h.w.call("f", c)
    sim = Sim()
    hooks0 = h.w.hooks.total
    _, _, n = sim.run(lambda: h.w.call("f", scen["history"][f["at"]]))
    if f["kind"] == "crash":
        f["k"] = 1 + int(f["frac"] * max(1, n)) if n > 0 else 1
        f["n"] = n
    else:
        cnt = h.w.hooks.total - hooks0
        f["nth"] = 1 + int(f["frac"] * cnt) if cnt > 0 else 1
        f["n"] = cnt


def ghost_spec(spec):
    """The same world with other inheritance relations between its (same-named) classes."""
    g = json.loads(json.dumps(spec))
    cl = g["classes"]
    chain = all(c[1] == ([cl[i - 1][0]] if i else []) for i, c in enumerate(cl))
    for i, c in enumerate(cl):
        c[1] = [] if (chain or i == 0) else [cl[i - 1][0]]
    g["virtual"] = []
    return g


def run_ghost(scen):
    """Address reuse: a world with other class relations lives and dies right before the world under
    test is created; the allocator then hands the same addresses to the new classes, functions and
    tables. Anything the library remembers by identity of dead objects now names live ones."""
    import gc

    begin_run()
    try:
        gh = Harness(ghost_spec(scen["spec"]), scen["regs"])
        for c in scen["history"]:
            if "flood" not in c:
                gh.w.call("f", {k: v for k, v in c.items() if k != "on"})
        del gh
    except Exception:  # noqa: BLE001  (a relation change can make a method set invalid: still a ghost)
        pass
    gc.collect()


def execute(scen):
    sort_errors_first(scen)
    resolve_fault(scen)
    if scen.get("ghost"):
        run_ghost(scen)
    begin_run()
    spec, regs = scen["spec"], scen["regs"]
    h = Harness(spec, regs)
    second = scen.get("second")
    if second:
        g = h.w.new_func("g")
        if second["same_name"]:
            g.rename("f", "f")
        for r in second["regs"]:
            h.w.register("g", r[0], r[1] if len(r) > 1 else None)
    f = scen["fault"]
    # the same calls made first on a fresh function *in a process that has made no other call*
    # (the in-process reference shares whatever library-level state earlier scenarios left behind)
    plain = [{k: v for k, v in c.items() if k != "on"} for c in scen["history"] if "flood" not in c]
    uniq = list({json.dumps(c, sort_keys=True): c for c in plain}.values())
    req = [(spec, regs, uniq)] + ([(spec, second["regs"], uniq)] if second else [])
    pres = pristine.refs(req)
    pristine_ref = {(t, json.dumps(c, sort_keys=True)): o
                    for t, outs in zip(("f", "g"), pres) for c, o in zip(uniq, outs)}
    violation = None
    trace = []
    states = []
    transitions = []
    miss_after_first = False
    fired = False
    prev_state = cache_state(h)
    for i, c in enumerate(scen["history"]):
        if "flood" in c:
            b = scen["corpus"][c["base"]]
            if b.get("args") and b["args"][0][0] == "n" and not b.get("kw") \
                    and not spec["meta"].get("self"):
                base = getattr(h.w.mod, b["args"][0][1])
                rest = [h.w.value(v) for v in b["args"][1:]]
                ref_b = ref_outcomes(spec, regs, [b], scen["label"])[0]
                for q in range(c["flood"]):
                    try:
                        h.ov.dispatch(type(f"Flood{i}_{q}", (base,), {})(0, []), *rest)
                    except Exception:  # noqa: BLE001
                        pass
                    h.w.log.take()
                    # the call the flood was derived from, repeated after every new type: whatever
                    # the size of a bounded table, the moment it evicts falls between two of these
                    out_b = h.w.call("f", b)
                    if out_b != ref_b:
                        violation = {"clause": "a call's outcome in a history differs from the same call made first on a fresh function",
                                     "op_index": i, "call": b, "observed": out_b, "expected": ref_b,
                                     "after_fault": bool(f is not None and i > f["at"] and fired),
                                     "flood_size": q + 1, "symptom": symptom(out_b, ref_b) + ":flood"}
                        break
                h.w.log.take()
            trace.append(["flood"])
            if violation:
                break
            continue
        target = "g" if (second and c.get("on") == "g") else "f"
        tregs = second["regs"] if target == "g" else regs
        if f is not None and i == f["at"]:
            if f["kind"] == "crash":
                sim = Sim()
                out, exc, _ = sim.run(lambda: h.w.call(target, c), crash_at=f["k"], crash_exc=f["exc"])
                fired = bool(sim.crash_fired)
                if exc is not None:
                    out = ["raised", type(exc).__name__]
            else:
                h.w.hooks.plan = [{"hook": None, "nth": h.w.hooks.total + f["nth"], "exc": f["exc"]}]
                sim = Sim()
                out, exc, _ = sim.run(lambda: h.w.call(target, c))
                fired = bool(h.w.hooks.fired)
                h.w.hooks.plan = []
                if exc is not None:
                    out = ["raised", type(exc).__name__]
            trace.append(["faulted", out])
            if fired:
                continue
            # the fault did not fire: the call is an ordinary one
        else:
            out = h.w.call(target, c)
            trace.append(out)
        st = cache_state(h)
        if st != prev_state and i > 0:
            miss_after_first = True
        transitions.append(stable_hash([prev_state, json.dumps(c, sort_keys=True)]))
        states.append(st)
        prev_state = st
        cc = {k: v for k, v in c.items() if k != "on"}
        ref = ref_outcomes(spec, tregs, [cc], scen["label"])[0]
        pref = pristine_ref[(target, json.dumps(cc, sort_keys=True))]
        if out == ref and out != pref:
            violation = {"clause": "a call's outcome differs from the same call made first on a fresh function "
                                   "in a process that made no other call",
                         "op_index": i, "call": c, "observed": out, "expected": pref,
                         "after_fault": bool(f is not None and i > f["at"] and fired),
                         "symptom": symptom(out, pref) + ":process-history"}
            break
        if out != ref:
            violation = {"clause": "a call's outcome in a history differs from the same call made first on a fresh function",
                         "op_index": i, "call": c, "observed": out, "expected": ref,
                         "after_fault": bool(f is not None and i > f["at"] and fired),
                         "symptom": symptom(out, ref)}
            break
    return {"violation": violation, "digest": stable_hash(trace), "states": states,
            "transitions": transitions, "nontrivial": miss_after_first, "fired": fired}


def symptom(p, r):
    def k(o):
        return "ok" if o[0] == "ok" else (o[2][0] if len(o) > 2 else o[0])
    return f"{k(p)}-instead-of-{k(r)}"


def run_job(job):
    stats = {"evaluations": 0, "nontrivial": [], "states": [], "transitions": [], "ops": 0,
             "faults_fired": {}, "by_config": {}, "by_shape": {}, "env": {}}
    violations = []
    nviol = 0
    dig = 0
    samples = []
    for index in range(job["index"], job["index"] + job["count"]):
        scen = gen_scenario(job["seed"], index, job["faulty"])
        r = execute(scen)
        stats["evaluations"] += 1
        stats["ops"] += len(scen["history"])
        cfg = "fault-injecting" if job["faulty"] else "fault-free"
        stats["by_config"][cfg] = stats["by_config"].get(cfg, 0) + 1
        stats["by_shape"][scen["shape"]] = stats["by_shape"].get(scen["shape"], 0) + 1
        for flag in ("ghost", "second"):
            if scen.get(flag):
                stats["env"][flag] = stats["env"].get(flag, 0) + 1
        if any("flood" in c for c in scen["history"]):
            stats["env"]["flood"] = stats["env"].get("flood", 0) + 1
        stats["states"].extend(r["states"])
        stats["transitions"].extend(r["transitions"])
        if r["fired"]:
            k = scen["fault"]["kind"] + ":" + scen["fault"]["exc"]
            stats["faults_fired"][k] = stats["faults_fired"].get(k, 0) + 1
        if r["nontrivial"]:
            stats["nontrivial"].append(stable_hash([scen["label"], scen["history"]]))
        dig = (dig * 1000003 + r["digest"]) & ((1 << 61) - 1)
        if r["violation"]:
            nviol += 1
            if len(violations) < 5:
                violations.append((scen, r["violation"]))
        elif not samples and r["nontrivial"]:
            samples.append({"regs": scen["regs"], "history": scen["history"][:8], "fault": scen["fault"]})
    return {"stats": stats, "violations": violations, "nviolations": nviol, "digest": dig,
            "samples": samples}


def jobs(tier, seed):
    if tier == "quick":
        for i in range(0, 9000, 75):
            yield {"seed": seed, "index": i, "count": 75, "faulty": False}
        for i in range(0, 4500, 75):
            yield {"seed": seed, "index": i, "count": 75, "faulty": True}
    else:
        i = j = 0
        while True:
            for _ in range(2):
                yield {"seed": seed, "index": i, "count": 50, "faulty": False}
                i += 50
            yield {"seed": seed, "index": j, "count": 50, "faulty": True}
            j += 50


def vclass(scen, v):
    return [v["clause"][:40], v.get("symptom"), bool(scen.get("fault")) and v.get("after_fault")]


def signature(scen, v):
    f = scen.get("fault")
    return {"clause": v["clause"], "symptom": v.get("symptom"),
            "after_fault": bool(v.get("after_fault")),
            "fault_kind": (f or {}).get("kind"), "history_len": len(scen["history"])}


def size(scen):
    return len(scen["history"]) * 5 + len(scen["regs"]) * 3


def shrink_moves(scen):
    hist = scen["history"]
    f = scen.get("fault")
    if len(hist) > 6:
        for lo, hi in ((0, len(hist) // 2), (len(hist) // 2, len(hist))):
            yield _without(scen, lo, hi)
    for i in range(len(hist) - 1, -1, -1):
        if f is not None and i == f["at"]:
            continue
        yield _without(scen, i, i + 1)
    for i in range(len(scen["regs"]) - 1, -1, -1):
        if len(scen["regs"]) > 1:
            s2 = dict(scen)
            s2["regs"] = scen["regs"][:i] + scen["regs"][i + 1:]
            s2["label"] = scen["label"] + "'"
            if f is not None:
                s2["fault"] = {k: v for k, v in f.items() if k not in ("k", "nth", "n")}
            yield s2
    if f is not None:
        s2 = dict(scen)
        s2["fault"] = None
        yield s2


def _without(scen, lo, hi):
    s2 = dict(scen)
    s2["history"] = scen["history"][:lo] + scen["history"][hi:]
    s2["label"] = scen["label"] + "'"
    s2["shape"] = scen["shape"].rstrip("*") + "*" if scen["shape"].startswith("errors_first") else scen["shape"]
    f = scen.get("fault")
    if f is not None:
        f2 = dict(f)
        if f["at"] >= hi:
            f2["at"] = f["at"] - (hi - lo)
        elif f["at"] >= lo:
            return dict(s2, fault=None)
        s2["fault"] = f2
    return s2


def coverage(agg):
    return {
        "evaluations": int(agg.get("evaluations", 0)),
        "distinct_nontrivial": len(agg.get("nontrivial", set())),
        "rule": "one evaluation = one call history on one function; non-trivial = at least one cache miss (change of "
                "the cache-state abstraction) after the first operation; distinct by (world, history)",
        "calls_compared_with_fresh_function": int(agg.get("ops", 0)),
        "distinct_cache_states": len(agg.get("states", set())),
        "distinct_state_call_transitions": len(agg.get("transitions", set())),
        "histories_by_configuration": agg.get("by_config", {}),
        "histories_by_shape": agg.get("by_shape", {}),
        "faults_fired_by_kind": agg.get("faults_fired", {}),
        "environment_disturbances": dict(agg.get("env", {}),
                                         untouched_image_references=int(agg.get("evaluations", 0))),
        "state_abstraction": "hash of key sets of the MultiTypeMap, its remembered errors and each per-position TypeMap",
        "real_components": ["ovld (all of it)"],
        "simulated_components": ["call history", "crash step / failing hook invocation in one call",
                                 "set iteration order (canonical)",
                                 "process history (reference from an untouched forked image)",
                                 "address reuse (ghost world that dies before the world under test)"],
        "exhaustive": False,
    }
