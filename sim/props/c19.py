"""C19 - concurrent calls behave like sequential calls.

Real caller threads, one baton: every line event in library code, generated
code and the world's method bodies is a yield point, and the run's PRNG (or a
recorded script) decides who runs next. The function is never mutated, so each
operation has exactly one legal outcome: the one it has alone on a fresh
function.
"""

import json
import random

from .. import gen
from ..common import Harness, begin_run, ref_outcomes
from ..rng import run_rng, stable_hash, weighted
from ..trace import (HOT_FUNCS, PCT, Deadlock, HarnessError, Placed, RandomWalk, Scheduler,
                     Sim, SimRLock, StepCap)

ID = "C19"
NAME = "c19"
LEVEL = "exploration"
BUDGET = {"quick": 150, "thorough": 900}
ASSUMPTIONS = [
    "pre-emption granularity is the source line of library / generated / world code under the GIL; "
    "free-threaded builds and pre-emption inside C functions are not modelled",
    "library locks are served as simulated locks (blocking is a scheduler event)",
    "reference = the same library: each operation alone as the first call on a fresh function",
    "the function is not mutated while threads run (statement: 'fully defined')",
]

FEAT = gen.feat(
    p_self=0.15,
    bodies={"next_try": 0.6, "leaf": 3, "next": 4, "rec": 1.2, "fnext": 0.5, "next2": 1.0,
            "next_other": 0.4, "rec_next": 0.5},
    ann={"d": 1.2, "h": 0.9},
    p_kw=0.1, p_optional=0.1, ncorpus=(3, 6), nmeth=(3, 6), p_dup_sig=0.1,
)

_CL = [["K0", [], False], ["K1", ["K0"], False], ["K2", ["K0"], False],
       ["K3", ["K1", "K2"], False]]


def _m(ann, body, prio=0):
    return {"params": [["a0", "pos", ann, False]], "prio": prio, "body": body}


_META1 = {"min_ar": 1, "max_ar": 1, "flavour": ["cls"], "has_kw": False, "mixed": False}

FIXED = {
    "chain": {
        "spec": {"classes": _CL + [["K4", ["K1", "K2"], False]], "hooks": [], "deps": [], "methods": {
            "m0": _m(["o"], ["leaf"]), "m1": _m(["c", "K0"], ["next"]),
            "m2": _m(["c", "K1"], ["next2"]), "m3": _m(["c", "K2"], ["next"]),
            # K3(K1, K2): this method is the unique first rank, its call_next meets an ambiguous rank
            "m4": _m(["c", "K3"], ["next"]),
        }, "meta": _META1},
        "regs": [["m0"], ["m1"], ["m2"], ["m3"], ["m4"]],
        "calls": [{"args": [["n", "K1", 0, []]]}, {"args": [["n", "K2", 0, []]]},
                  {"args": [["int", 1]]}, {"args": [["n", "K3", 0, []]]},  # K3: m4, then an ambiguous rank
                  {"args": [["n", "K4", 0, []]]}],  # K4(K1, K2): ambiguous at the first rank
    },
    "dep": {
        "spec": {"classes": _CL, "hooks": [{"name": "H0", "true_for": ["K0", "K1", "K3"]}],
                 "deps": [{"name": "P0", "bound": "object", "mod": 2, "eq": 0},
                          {"name": "P1", "bound": "object", "mod": 3, "eq": 1}], "methods": {
            "m0": _m(["o"], ["leaf"]), "m1": _m(["d", "K0", "P0"], ["next"]),
            "m2": _m(["h", "H0"], ["next"], prio=1), "m3": _m(["c", "K0"], ["rec_next"]),
            # intersection of two value-dependent types: its checking code is assembled from parts
            "m4": _m(["i", [["d", "K0", "P0"], ["d", "K0", "P1"]]], ["next"], prio=2),
        }, "meta": _META1},
        "regs": [["m0"], ["m1"], ["m2"], ["m3"], ["m4"]],
        "calls": [{"args": [["n", "K1", 0, [["n", "K2", 1, []]]]]}, {"args": [["n", "K2", 2, []]]},
                  {"args": [["n", "K0", 1, []]]}],
    },
    # a method that hands a *converted* argument (of another type) to call_next: the continuation
    # entry (its code, K2) is looked up while another thread is resolving K2 for the first time
    "conv": {
        "spec": {"classes": _CL, "hooks": [], "deps": [], "methods": {
            "m0": _m(["o"], ["leaf"]), "m1": _m(["c", "K0"], ["next_other", ["n", "K2", 5, []]]),
            "m2": _m(["c", "K1"], ["next"]),
            # ... and one that restarts the dispatch on a type it is not a candidate for
            "m3": _m(["c", "K2"], ["next_other", ["n", "K1", 6, []]]),
        }, "meta": _META1},
        "regs": [["m0"], ["m1"], ["m2"], ["m3"]],
        "calls": [{"args": [["n", "K2", 0, []]]}, {"args": [["n", "K1", 0, []]]},
                  {"args": [["int", 1]]}],
    },
    # optional positional and optional keyword-only parameters: the generated entry point relies on
    # __defaults__ / __kwdefaults__, and the calls below omit the optional arguments
    "opt": {
        "spec": {"classes": _CL, "hooks": [], "deps": [], "methods": {
            "m0": {"params": [["a0", "pos", ["o"], False], ["a1", "pos", ["o"], True]],
                   "prio": 0, "body": ["leaf"]},
            "m1": {"params": [["a0", "pos", ["c", "K0"], False], ["a1", "pos", ["c", "K0"], True],
                              ["k0", "kw", ["o"], True]], "prio": 0, "body": ["next"]},
            "m2": {"params": [["a0", "pos", ["c", "K1"], False], ["k0", "kw", ["c", "K0"], True]],
                   "prio": 0, "body": ["next"]},
        }, "meta": {"min_ar": 1, "max_ar": 2, "flavour": ["cls", "cls"], "has_kw": True,
                    "mixed": False}},
        "regs": [["m0"], ["m1"], ["m2"]],
        "calls": [{"args": [["n", "K1", 0, []]]},
                  {"args": [["n", "K2", 0, []]], "kw": {"k0": ["n", "K0", 0, []]}},
                  {"args": [["int", 1]]}],
    },
}

# scenario shapes for the fixed worlds: (prewarm index or None, thread0 call idx, thread1 call idx)
FIXED_SHAPES = {
    "S1_first_same": (None, 0, 0),
    "S2_first_diff": (None, 0, 1),
    "S3_miss_same": (2, 0, 0),
    "S4_miss_diff": (2, 0, 1),
    "S5_chain_vs_warm": (1, 0, 1),
    "S2b_first_diff": (None, 0, 2),
    "S2c_first_diff": (None, 1, 2),
    "S4b_miss_diff": (1, 0, 2),
    # racing a call whose resolution ends in the ambiguity error (chain world only)
    "S6_ambiguous_same": (2, 3, 3),
    "S7_ambiguous_cold": (None, 3, 3),
    "S8_ambiguous_first_rank": (2, 4, 4),
    "S9_ambiguous_first_rank_cold": (None, 4, 4),
}


def fixed_scenario(name, shape):
    fx = FIXED[name]
    pw, a, b = FIXED_SHAPES[shape]
    calls = fx["calls"]
    return {
        "label": f"fixed:{name}:{shape}", "spec": json.loads(json.dumps(fx["spec"])),
        "regs": fx["regs"], "corpus": calls,
        "prewarm": [] if pw is None else [calls[pw]],
        "threads": [[calls[a]], [calls[b]]],
        "strategy": None,
    }


def seeded_scenario(seed, index):
    s, rng = run_rng(ID, index, seed=seed)
    spec = gen.gen_world(rng, FEAT)
    mids = list(spec["methods"])
    regs = [[m] for m in rng.sample(mids, rng.randint(2, len(mids)))]
    corpus = gen.gen_corpus(rng, spec, FEAT)
    nthreads = 2 if rng.random() < 0.85 else 3
    prewarm = []
    r = rng.random()
    if r < 0.45:
        prewarm = []
    elif r < 0.8:
        prewarm = [rng.choice(corpus)]
    else:
        prewarm = [rng.choice(corpus) for _ in range(2)]
    threads = []
    shared = rng.choice(corpus)
    for t in range(nthreads):
        ops = []
        for i in range(weighted(rng, [(1, 5), (2, 3), (3, 1)])):
            c = shared if rng.random() < 0.5 else rng.choice(corpus)
            c = dict(c)
            if rng.random() < 0.1 and not c.get("kw"):
                c["kind"] = "resolve"
            ops.append(c)
        threads.append(ops)
    kind = weighted(rng, [("placed", 4), ("pct", 3), ("rw", 3)])
    if kind == "rw":
        strat = {"kind": "rw", "p": rng.choice([0.001, 0.01, 0.1]), "seed": rng.getrandbits(32)}
    elif kind == "pct":
        strat = {"kind": "pct", "d": rng.choice([1, 2, 3]), "seed": rng.getrandbits(32)}
    else:
        strat = {"kind": "placed_random", "seed": rng.getrandbits(32),
                 "n": weighted(rng, [(1, 6), (2, 3)])}
    return {"label": f"seed:{s}", "spec": spec, "regs": regs, "corpus": corpus,
            "prewarm": prewarm, "threads": threads, "strategy": strat}


# --------------------------------------------------------------------------


def solo_trace(scen, tid):
    """Trace of thread ``tid``'s operations run alone (after the prewarm) on a fresh world."""
    begin_run()
    h = Harness(scen["spec"], scen["regs"])
    for c in scen["prewarm"]:
        h.w.call("f", c)
    sim = Sim(trace_world=True, opcode_funcs=HOT_FUNCS if scen.get("opcode") else None)
    sim.trace_log = []
    sim.run(lambda: [h.w.call("f", c) for c in scen["threads"][tid]])
    return sim.trace_log


def make_strategy(scen):
    st = scen["strategy"]
    n = len(scen["threads"])
    if st is None:
        return None, None
    k = st["kind"]
    if k == "script":
        return None, st["switches"]
    if k == "rw":
        return RandomWalk(random.Random(st["seed"]), st["p"]), None
    if k == "pct":
        est = sum(len(solo_trace(scen, t)) for t in range(n))
        return PCT(random.Random(st["seed"]), n, est, st["d"]), None
    if k == "placed":
        return Placed(st["places"]), None
    if k == "placed_random":
        rng = random.Random(st["seed"])
        places = []
        for _ in range(st["n"]):
            tid = rng.randrange(n)
            tr = solo_trace(scen, tid)
            if not tr:
                continue
            if rng.random() < 0.5:
                loc = rng.choice(sorted(set(tr)))
                nth = rng.randint(1, min(2, tr.count(loc)))
            else:
                i = rng.randrange(len(tr))
                loc = tr[i]
                nth = tr[: i + 1].count(loc)
            to = rng.choice([t for t in range(n) if t != tid])
            places.append([tid, loc, nth, to])
        return Placed(places), None
    raise ValueError(k)


def execute(scen):
    strategy, script = make_strategy(scen)
    begin_run()
    SimRLock.reset_all()
    spec, regs, corpus = scen["spec"], scen["regs"], scen["corpus"]
    h = Harness(spec, regs)
    for c in scen["prewarm"]:
        h.w.call("f", c)
    sim = Sim(trace_world=True, step_cap=600_000,
              opcode_funcs=HOT_FUNCS if scen.get("opcode") else None)
    n = len(scen["threads"])
    sched = Scheduler(sim, n, strategy=strategy, script=script)
    results = [[None] * len(ops) for ops in scen["threads"]]

    def body(tid):
        for i, c in enumerate(scen["threads"][tid]):
            results[tid][i] = h.w.call("f", c)

    violation = None
    died = []
    try:
        errs = sched.run([body] * n, first=scen.get("first", 0))
        died = [(tid, type(e).__name__) for tid, e in errs]
    except StepCap:
        violation = {"clause": "liveness: run exceeded the step budget", "symptom": "stepcap"}
    label = scen["label"]
    switches = sched.switches
    if violation is None and (sched.deadlock or any(d[1] == "Deadlock" for d in died)):
        violation = {"clause": "deadlock: all live threads blocked on library locks",
                     "symptom": "deadlock"}
    if violation is None and died:
        violation = {"clause": "a caller thread died with an unexpected exception",
                     "symptom": "died:" + died[0][1], "died": died}
    # (1) each operation equals its solo outcome on a fresh function
    if violation is None:
        for tid, ops in enumerate(scen["threads"]):
            for i, c in enumerate(ops):
                ref = ref_outcomes(spec, regs, [c], label)[0]
                if results[tid][i] != ref:
                    violation = {
                        "clause": "a concurrent call's outcome differs from the same call made alone",
                        "thread": tid, "op": i, "observed": results[tid][i], "expected": ref,
                        "symptom": symptom(results[tid][i], ref)}
                    break
            if violation:
                break
    # (2) afterwards the function is in a correct state
    probes = None
    if violation is None:
        probes = h.probes(corpus)
        ref = ref_outcomes(spec, regs, corpus, label)
        if probes != ref:
            i = next(i for i, (a, b) in enumerate(zip(probes, ref)) if a != b)
            violation = {"clause": "after the threads finished, a later call differs from a fresh function",
                         "probe_index": i, "observed": probes[i], "expected": ref[i],
                         "symptom": symptom(probes[i], ref[i])}
    if violation is not None:
        violation["decisive_funcs"] = sorted({f for _, loc, _ in sched.switch_locs
                                              for f in [loc.rsplit(":", 1)[0]]})[:12]
        violation["switches"] = switches[:50]
    digest = sim.digest ^ stable_hash([results, probes, switches])
    sig = stable_hash([(a, loc, b) for a, loc, b in sched.switch_locs])
    return {"violation": violation, "digest": digest, "switches": switches,
            "nswitch": len(switches), "steps": sim.step, "switch_sig": sig,
            "pairs": [f"{a}>{b}" for a, b in sched.pairs], "probes": dict(sched.probes),
            "lib_switch": any(not loc.startswith("<simworld>") for _, loc, _ in sched.switch_locs)}


def symptom(p, r):
    def k(o):
        if o is None:
            return "none"
        if o[0] == "ok":
            return "ok"
        return o[2][0]
    return f"{k(p)}-instead-of-{k(r)}"


def scripted(scen, switches):
    s2 = dict(scen)
    s2["strategy"] = {"kind": "script", "switches": switches}
    return s2


def run_one(scen, stats, violations):
    r = execute(scen)
    stats["evaluations"] += 1
    stats["steps"] += r["steps"]
    stats["switches"] += r["nswitch"]
    if r["nswitch"] and r["lib_switch"]:
        stats["switch_sigs"].append(r["switch_sig"])
    stats["pairs"].extend(r["pairs"][:40])
    for k, v in r["probes"].items():
        stats["probes"][k] = stats["probes"].get(k, 0) + (1 if v else 0)
    kind = (scen["strategy"] or {"kind": "none"})["kind"]
    stats["by_strategy"][kind] = stats["by_strategy"].get(kind, 0) + 1
    if r["violation"]:
        stats["nviol"] += 1
        if len(violations) < 5:
            violations.append((scripted(scen, r["switches"]), r["violation"]))
    return r


def new_stats():
    return {"evaluations": 0, "steps": 0, "switches": 0, "switch_sigs": [], "pairs": [],
            "probes": {}, "by_strategy": {}, "nviol": 0, "by_shape": {}}


def run_job(job):
    stats = new_stats()
    violations = []
    dig = 0
    samples = []
    if job["kind"] == "fixed_placed":
        base = fixed_scenario(job["name"], job["shape"])
        stats["by_shape"][job["shape"]] = 0
        victim = job["victim"]
        other = 1 - victim
        tr = solo_trace(base, victim)
        places = []
        seen = {}
        for loc in tr:
            n = seen[loc] = seen.get(loc, 0) + 1
            hot = any(x in loc for x in (":compile:", ":resolve:", ":__missing__:", ":f:", ":mro:"))
            if n == 1 or (n == 2 and hot) or job.get("all_visits"):
                places.append([victim, loc, n, other])
        for i in range(job["part"], len(places), job["stride"]):
            scen = dict(base)
            scen["strategy"] = {"kind": "placed", "places": [places[i]]}
            scen["first"] = victim
            r = run_one(scen, stats, violations)
            stats["by_shape"][job["shape"]] += 1
            dig = (dig * 1000003 + r["digest"]) & ((1 << 61) - 1)
            if not samples and r["nswitch"]:
                samples.append({"scenario": scen["label"], "pre-emption": places[i],
                                "switches": r["switches"][:6]})
    elif job["kind"] == "fixed_pairs":
        # two placed pre-emptions: thread A is suspended at L1 (a line of the "is it built yet?" /
        # build path), thread B runs and is suspended at L2 (generated entry point, a method body,
        # table lookup / resolution), A runs to completion, then B.
        base = fixed_scenario(job["name"], job["shape"])
        a, b = job["victim"], 1 - job["victim"]
        tr_a, tr_b = solo_trace(base, a), solo_trace(base, b)
        f1 = ("ensure_compiled", "_is_built", "f") if not job.get("wide") else \
            ("ensure_compiled", "_is_built", "f", "compile", "resolve", "__missing__")
        if job.get("wide") == "all":
            # every line of the resolution / code generation path of A x the same of B
            keep = ("dependent.py:", "recode.py:generate_dependent_dispatch",
                    "typemap.py:wrap_dependent", "typemap.py:resolve")
            l1 = [loc for loc in dict.fromkeys(tr_a) if loc.startswith(keep)]
            l2 = [loc for loc in dict.fromkeys(tr_b) if loc.startswith(keep)]
        elif job.get("wide") == "resolve":
            # A suspended at any visit of a line of its resolution (between publishing one table
            # entry and the next), B suspended inside its own redundant resolution of the same miss
            l1 = [loc for loc in dict.fromkeys(tr_a) if loc.startswith("typemap.py:resolve")]
            l2 = [loc for loc in dict.fromkeys(tr_b)
                  if loc.startswith(("typemap.py:resolve", "typemap.py:mro", "typemap.py:__missing__"))]
        else:
            l1 = [loc for loc in dict.fromkeys(tr_a)
                  if loc.split(":")[1] in f1 and not loc.startswith("<simworld>")]
            l2 = [loc for loc in dict.fromkeys(tr_b)
                  if loc.startswith(("<ovld>", "<simworld>", "typemap.py:"))]
        nths = (1, 2) if job.get("wide") == "all" else (1, 2, 3, 4) if job.get("wide") == "resolve" else (1,)
        pairs = [(x, n, y) for x in l1 for n in nths if tr_a.count(x) >= n for y in l2]
        stats["by_shape"]["pairs:" + job["shape"]] = 0
        for i in range(job["part"], len(pairs), job["stride"]):
            x, n, y = pairs[i]
            scen = dict(base)
            scen["strategy"] = {"kind": "placed", "places": [[a, x, n, b], [b, y, 1, a]]}
            scen["first"] = a
            r = run_one(scen, stats, violations)
            stats["by_shape"]["pairs:" + job["shape"]] += 1
            dig = (dig * 1000003 + r["digest"]) & ((1 << 61) - 1)
    else:
        for index in range(job["index"], job["index"] + job["count"]):
            scen = seeded_scenario(job["seed"], index)
            if job.get("opcode_every") and index % job["opcode_every"] == 0:
                scen["opcode"] = True  # bytecode-granularity yield points in the publishing functions
                stats["opcode_runs"] = stats.get("opcode_runs", 0) + 1
            r = run_one(scen, stats, violations)
            dig = (dig * 1000003 + r["digest"]) & ((1 << 61) - 1)
            if not samples and r["nswitch"]:
                samples.append({"scenario": scen["label"], "strategy": scen["strategy"],
                                "threads": scen["threads"], "switches": r["switches"][:6]})
    nviol = stats.pop("nviol")
    return {"stats": stats, "violations": violations, "nviolations": nviol, "digest": dig,
            "samples": samples}


def jobs(tier, seed):
    stride = 6 if tier == "quick" else 12
    if tier == "thorough":
        for shape in ("S2_first_diff", "S2b_first_diff", "S4_miss_diff"):
            for victim in (0, 1):
                for part in range(32):
                    yield {"kind": "fixed_pairs", "name": "dep", "shape": shape, "victim": victim,
                           "stride": 32, "part": part, "wide": "all"}
    for name in FIXED:
        for shape in FIXED_SHAPES:
            if max(x for x in FIXED_SHAPES[shape] if x is not None) >= len(FIXED[name]["calls"]):
                continue
            for victim in (0, 1):
                if victim == 1 and FIXED_SHAPES[shape][1] == FIXED_SHAPES[shape][2]:
                    continue
                for part in range(stride):
                    yield {"kind": "fixed_placed", "name": name, "shape": shape, "victim": victim,
                           "stride": stride, "part": part, "all_visits": tier == "thorough"}
    for name in (("chain",) if tier == "quick" else FIXED):
        for shape in (("S1_first_same", "S2_first_diff") if tier == "quick" else FIXED_SHAPES):
            if max(x for x in FIXED_SHAPES[shape] if x is not None) >= len(FIXED[name]["calls"]):
                continue
            for victim in (0, 1):
                for part in range(4):
                    yield {"kind": "fixed_pairs", "name": name, "shape": shape, "victim": victim,
                           "stride": 4, "part": part, "wide": tier == "thorough"}
    for name in (("chain",) if tier == "quick" else FIXED):
        for shape in ("S1_first_same", "S3_miss_same"):
            for victim in (0, 1):
                for part in range(4):
                    yield {"kind": "fixed_pairs", "name": name, "shape": shape, "victim": victim,
                           "stride": 4, "part": part, "wide": "resolve"}
    if tier == "quick":
        for i in range(0, 2400, 25):
            yield {"kind": "seeded", "seed": seed, "index": i, "count": 25, "opcode_every": 8}
    else:
        i = 0
        while True:
            yield {"kind": "seeded", "seed": seed, "index": i, "count": 25, "opcode_every": 3}
            i += 25


# --------------------------------------------------------------------------


def vclass(scen, v):
    return [v["clause"], v.get("symptom")]


def signature(scen, v):
    return {"clause": v["clause"], "symptom": v.get("symptom"),
            "decisive_funcs": v.get("decisive_funcs"),
            "cold_build": not scen["prewarm"]}


def size(scen):
    st = scen["strategy"] or {}
    return (len(st.get("switches", [])) * 5 + sum(len(t) for t in scen["threads"]) * 10
            + len(scen["regs"]) * 3 + len(scen["corpus"]) + len(scen["prewarm"]) * 2)


def shrink_moves(scen):
    st = scen["strategy"]
    if st and st["kind"] == "script":
        sw = st["switches"]
        # drop halves, then single switch points
        if len(sw) > 4:
            yield scripted(scen, sw[: len(sw) // 2])
            yield scripted(scen, sw[len(sw) // 2:])
        for i in range(len(sw) - 1, -1, -1):
            yield scripted(scen, sw[:i] + sw[i + 1:])
    for t in range(len(scen["threads"])):
        ops = scen["threads"][t]
        if len(ops) > 1:
            for i in range(len(ops)):
                s2 = dict(scen)
                s2["threads"] = [list(x) for x in scen["threads"]]
                s2["threads"][t] = ops[:i] + ops[i + 1:]
                s2["label"] = scen["label"] + "'"
                yield s2
    if len(scen["threads"]) > 2:
        for t in range(len(scen["threads"])):
            s2 = dict(scen)
            s2["threads"] = [x for i, x in enumerate(scen["threads"]) if i != t]
            s2["label"] = scen["label"] + "'"
            yield s2
    for i in range(len(scen["corpus"])):
        if len(scen["corpus"]) > 1:
            s2 = dict(scen)
            s2["corpus"] = scen["corpus"][:i] + scen["corpus"][i + 1:]
            s2["label"] = scen["label"] + "'"
            yield s2
    for i in range(len(scen["prewarm"])):
        s2 = dict(scen)
        s2["prewarm"] = scen["prewarm"][:i] + scen["prewarm"][i + 1:]
        s2["label"] = scen["label"] + "'"
        yield s2
    for i in range(len(scen["regs"])):
        if len(scen["regs"]) > 1:
            s2 = dict(scen)
            s2["regs"] = scen["regs"][:i] + scen["regs"][i + 1:]
            s2["label"] = scen["label"] + "'"
            yield s2


def coverage(agg):
    sigs = agg.get("switch_sigs", set())
    pairs = agg.get("pairs", set())
    return {
        "evaluations": int(agg.get("evaluations", 0)),
        "distinct_nontrivial": len(sigs),
        "rule": "one evaluation = one multi-thread run under one schedule; non-trivial = at least one "
                "pre-emption inside library/generated code; distinct = distinct switch signatures "
                "(sequence of (pre-empted thread, file:function:line, resumed thread))",
        "distinct_preempt_resume_location_pairs": len(pairs),
        "total_switches": int(agg.get("switches", 0)),
        "simulated_steps": int(agg.get("steps", 0)),
        "runs_by_strategy": agg.get("by_strategy", {}),
        "runs_at_bytecode_granularity": int(agg.get("opcode_runs", 0)),
        "fixed_single_preemption_runs_by_shape": agg.get("by_shape", {}),
        "reach_probes_runs_hit": agg.get("probes", {}),
        "fault_kinds": "none injected in this check (schedules only)",
        "real_components": ["ovld (all of it)", "CPython threads (parked/released one at a time)"],
        "simulated_components": ["choice of running thread", "library locks (SimRLock)",
                                 "set iteration order (canonical)"],
        "exhaustive": False,
    }
