"""C16 - variants and mixins compose without ever disturbing their parents.

Histories over a graph of functions (roots, copies, variants, mixin
combinations, with and without linkback). A derivation-graph model tracks own
tables, edges, linkback flags and which nodes have been put to use; it predicts
which modifications must be refused / must succeed and each node's effective
method set. What a method set dispatches to is answered by a plain freshly
built function registering that set.
"""

import json

from .. import gen
from ..common import begin_run, ref_outcomes
from ..rng import run_rng, stable_hash, weighted
from ..world import World, canon_order, classify

ID = "C16"
NAME = "c16"
LEVEL = "exploration"
BUDGET = {"quick": 70, "thorough": 900}
ASSUMPTIONS = [
    "a node holds at most one method per (parameter types, priority); parents joined by one mixin combination "
    "have disjoint (types, priority) keys (the statement does not define how stacks of replaced methods overlay)",
    "where the routes from an ancestor to a used descendant mix linkback and plain edges the statement does not "
    "decide whether modification is refused; either behaviour is accepted provided every node still equals its reference",
    "reference = plain fresh Ovld registering the model's effective method set",
]

FEAT = gen.feat(
    ann={"c": 6, "o": 1.2, "u": 1.0, "x": 0.6, "h": 0.5, "d": 0.6, "i": 0.2, "ph": 0.3, "ss": 0.3},
    bodies={"next_try": 0.6, "leaf": 4, "next": 3.5, "rec": 2.0, "next2": 0.3, "rec_next": 0.8, "fnext": 0.0, "fcall": 0.8,
            "next_other": 0.3},
    arity=[(1, 5), (2, 2.5)], p_kw=0.08, p_optional=0.08, ncorpus=(3, 6), nmeth=(5, 9),
    p_dup_sig=0.0, p_prio=0.3, p_mixed_names=0.0, p_int_pos=0.05, p_type_pos=0.05,
)


from ..common import sigkey  # noqa: E402,F401


# --------------------------------------------------------------------------
# model


class Model:
    def __init__(self, spec):
        self.spec = spec
        self.nodes = {}  # name -> dict(own: {sigkey: [mid, prio]}, parents: [names], linkback, used)
        self.order = []

    def add(self, name, parents, linkback):
        self.nodes[name] = {"own": {}, "parents": list(parents), "linkback": linkback, "used": False}
        self.order.append(name)

    def effective(self, name):
        n = self.nodes[name]
        d = {}
        for p in n["parents"]:
            d.update(self.effective(p))
        d.update(n["own"])
        return d

    def regs(self, name):
        return [list(v) for v in self.effective(name).values()]

    def children(self, name):
        return [c for c in self.order if name in self.nodes[c]["parents"]]

    def routes_kinds(self, x):
        """For every used strict descendant D of x, for every route x -> D: does it contain a
        non-linkback edge? Returns set of booleans seen (True = route contains a plain edge)."""
        seen = set()

        def walk(node, has_plain):
            for c in self.children(node):
                hp = has_plain or not self.nodes[c]["linkback"]
                if self.nodes[c]["used"]:
                    seen.add(hp)
                walk(c, hp)

        walk(x, False)
        return seen

    def verdict(self, x):
        kinds = self.routes_kinds(x)
        if not kinds or kinds == {False}:
            return "must_succeed"
        if kinds == {True}:
            return "must_refuse"
        return "either"


# --------------------------------------------------------------------------
# generation


def gen_scenario(seed, index):
    s, rng = run_rng(ID, index, seed=seed)
    spec = gen.gen_world(rng, FEAT)
    # twins (identical signature, other function) so that children can replace a parent's method
    for m in list(spec["methods"]):
        if rng.random() < 0.4:
            t = json.loads(json.dumps(spec["methods"][m]))
            t["body"] = [rng.choice(["leaf", "next"])]
            spec["methods"][m + "t"] = t
    pool = list(spec["methods"])
    uses_fn = any(m["body"][0] == "fcall" for m in spec["methods"].values())
    corpus = gen.gen_corpus(rng, spec, FEAT)
    model = Model(spec)
    ops = []
    nn = 0

    def fresh_name():
        nonlocal nn
        nn += 1
        return f"f{nn - 1}"

    def can_register(node, mid):
        return sigkey(spec, mid) not in model.nodes[node]["own"]

    # root
    r = fresh_name()
    model.add(r, [], False)
    mids = []
    for m in rng.sample(pool, rng.randint(1, min(4, len(pool)))):
        if can_register(r, m):
            model.nodes[r]["own"][sigkey(spec, m)] = [m, None]
            mids.append(m)
    ops.append({"op": "root", "name": r, "mids": mids, "named": rng.random() < 0.6})
    n = rng.randint(3, 15)
    follow = []
    tries = 0
    while len(ops) < n and tries < 100:
        tries += 1
        names = list(model.order)
        k = weighted(rng, [("copy", 14), ("variant", 14), ("mix", 6), ("addmix", 7), ("reg", 18),
                           ("unreg", 9), ("call", 26), ("root", 5)])
        forced = None
        if follow:
            # what tends to expose a propagation / locking gap: right after a late add_mixins, change
            # the new parent (or an ancestor of it) and look at a descendant of the node
            forced = follow.pop(0)
            k = forced[0]
        if k == "root" and len(names) < 6:
            nm = fresh_name()
            model.add(nm, [], False)
            mids = []
            taken = set()
            if rng.random() < 0.7:  # mostly disjoint from the other nodes, so that it can be mixed in later
                for x in names:
                    taken |= set(model.effective(x))
            for m in rng.sample(pool, rng.randint(1, min(3, len(pool)))):
                if sigkey(spec, m) in taken:
                    continue
                if can_register(nm, m):
                    model.nodes[nm]["own"][sigkey(spec, m)] = [m, None]
                    mids.append(m)
            ops.append({"op": "root", "name": nm, "mids": mids, "named": rng.random() < 0.6})
        elif k == "copy" and len(names) < 6:
            src = rng.choice(names)
            nm = fresh_name()
            lb = rng.random() < 0.45
            model.add(nm, [src], lb)
            ops.append({"op": "copy", "src": src, "name": nm, "linkback": lb,
                        "named": rng.random() < 0.6})
        elif k == "variant" and len(names) < 6:
            src = rng.choice(names)
            nm = fresh_name()
            lb = rng.random() < 0.45
            m = rng.choice(pool)
            model.add(nm, [src], lb)
            model.nodes[nm]["own"][sigkey(spec, m)] = [m, None]
            ops.append({"op": "variant", "src": src, "name": nm, "mid": m, "linkback": lb,
                        "named": rng.random() < 0.6})
        elif k == "mix" and len(names) >= 2 and len(names) < 6:
            ps = rng.sample(names, 2)
            e0, e1 = model.effective(ps[0]), model.effective(ps[1])
            if set(e0) & set(e1):
                continue
            nm = fresh_name()
            lb = rng.random() < 0.45
            model.add(nm, ps, lb)
            ops.append({"op": "mix", "parents": ps, "name": nm, "linkback": lb,
                        "named": rng.random() < 0.6})
        elif k == "addmix" and len(names) >= 2:
            node, par = rng.sample(names, 2)
            live = [x for x in names if model.routes_kinds(x) == {False}]  # used through linkback only
            if live and rng.random() < 0.5:
                node = rng.choice(live)
                others = [x for x in names if x != node]
                par = rng.choice([x for x in others if not model.nodes[x]["used"]] or others)
            # no cycles, disjoint keys with what the node already has from parents
            def ancestors(x):
                out = set()
                for p in model.nodes[x]["parents"]:
                    out.add(p)
                    out |= ancestors(p)
                return out
            if node in ancestors(par) or par in model.nodes[node]["parents"]:
                continue
            if uses_fn and node == r:
                continue  # (a by-name call puts the first root to use; keep it free of ancestors)
            inherited = {}
            for p in model.nodes[node]["parents"]:
                inherited.update(model.effective(p))
            if set(inherited) & set(model.effective(par)):
                continue
            ops.append({"op": "addmix", "node": node, "parent": par})
            if rng.random() < 0.6:
                anc_par = sorted(ancestors(par) | {par})
                follow = [(rng.choice(["reg", "reg", "unreg"]), rng.choice(anc_par))]
                desc = [x for x in names if node in ancestors(x) | {x}]
                follow.append(("call", rng.choice(desc)))
            # model effect decided at execution time (may be refused); assume verdict
            v = model.verdict(node)
            if v != "must_refuse":
                # generation continues with the optimistic model only when not refused for sure;
                # for "either" the executor re-synchronises, so stop extending here
                if v == "either":
                    break
                model.nodes[node]["parents"].append(par)
        elif k == "reg":
            node = forced[1] if forced else rng.choice(names)
            m = rng.choice(pool)
            if not can_register(node, m):
                continue
            ops.append({"op": "register", "node": node, "mid": m})
            v = model.verdict(node)
            if v == "either":
                break
            if v == "must_succeed":
                model.nodes[node]["own"][sigkey(spec, m)] = [m, None]
        elif k == "unreg":
            node = forced[1] if forced else rng.choice(names)
            own = model.nodes[node]["own"]
            cand = [v[0] for v in own.values()] or [rng.choice(pool)]
            m = rng.choice(cand)
            ops.append({"op": "unregister", "node": node, "mid": m})
            v = model.verdict(node)
            if v == "either":
                break
            if v == "must_succeed":
                for kk in [kk for kk, vv in own.items() if vv[0] == m]:
                    del own[kk]
        elif k == "call":
            node = forced[1] if forced else rng.choice(names)
            c = rng.choice(corpus)
            ops.append({"op": "call", "node": node, "c": c})
            model.nodes[node]["used"] = True
    return {"label": f"seed:{s}", "spec": spec, "ops": ops, "corpus": corpus}


# --------------------------------------------------------------------------
# execution


def _create(w, model, spec, op):
    from ovld import Ovld

    k = op["op"]
    if k == "root":
        w.new_func(op["name"], named=op.get("named", True))
        model.add(op["name"], [], False)
        for m in op["mids"]:
            w.register(op["name"], m)
            model.nodes[op["name"]]["own"][sigkey(spec, m)] = [m, None]
        if len(model.order) == 1:
            w.mod.FN = w.funcs[op["name"]].dispatch  # the function that by-name calls reach
        return
    if k in ("copy", "variant") and op["src"] not in w.funcs:
        return
    if k == "mix" and any(p not in w.funcs for p in op["parents"]):
        return
    if k == "copy":
        ov = w.funcs[op["src"]].copy(linkback=op["linkback"])
        parents = [op["src"]]
    elif k == "variant":
        ov = w.funcs[op["src"]].variant(w.method(op["mid"]),
                                        priority=spec["methods"][op["mid"]].get("prio", 0),
                                        linkback=op["linkback"])
        parents = [op["src"]]
    else:
        ov = Ovld(mixins=[w.funcs[p] for p in op["parents"]], linkback=op["linkback"])
        parents = list(op["parents"])
    if op.get("named", True):
        ov.rename(op["name"], op["name"])
    w.funcs[op["name"]] = ov
    model.add(op["name"], parents, op["linkback"])
    if k == "variant":
        model.nodes[op["name"]]["own"][sigkey(spec, op["mid"])] = [op["mid"], None]


def execute(scen):
    from ovld import Ovld

    begin_run()
    spec = scen["spec"]
    w = World(spec)
    model = Model(spec)
    violation = None
    trace = []
    label = scen["label"]
    stats = {"refused": 0, "propagated": 0, "either": 0, "mods_after_use": 0}

    uses_fn = any(m["body"][0] == "fcall" for m in spec["methods"].values())

    def node_ref(name, calls):
        """Fresh function built from the node's effective methods; in worlds with by-name recursion
        the name FN denotes a fresh function built from the first root's effective methods."""
        first = model.order[0]
        if not uses_fn or name == first:
            return ref_outcomes(spec, model.regs(name), calls, label)
        out = []
        rw = World(spec)
        for q, c in enumerate(calls):
            rw.new_func(f"R{q}", main=True)
            for r_ in model.regs(first):
                rw.register(f"R{q}", r_[0], r_[1] if len(r_) > 1 else None)
            rw.new_func(f"N{q}")
            for r_ in model.regs(name):
                rw.register(f"N{q}", r_[0], r_[1] if len(r_) > 1 else None)
            out.append(rw.call(f"N{q}", c))
        return out

    def check_node(name, i, why):
        regs = model.regs(name)
        got = [canon_order(w.call(name, c)) for c in scen["corpus"]]
        ref = [canon_order(o) for o in node_ref(name, scen["corpus"])]
        trace.append([name, got])
        if got != ref:
            j = next(j for j, (a, b) in enumerate(zip(got, ref)) if a != b)
            return {"clause": "a node differs from a fresh function built from its parents' methods plus its own",
                    "when": why, "op_index": i, "node": name, "call": scen["corpus"][j],
                    "observed": got[j], "expected": ref[j], "regs": regs,
                    "symptom": symptom(got[j], ref[j])}
        return None

    for i, op in enumerate(scen["ops"]):
        k = op["op"]
        res = None
        if k in ("root", "copy", "variant", "mix"):
            # creating a function or deriving one from others must always work
            try:
                _create(w, model, spec, op)
            except Exception as e:  # noqa: BLE001
                violation = {"clause": "creating / deriving a function raised", "op_index": i, "op": op,
                             "error": classify(e), "symptom": "derive-raised:" + type(e).__name__}
                break
            continue
        if k == "root":
            ov = w.new_func(op["name"], named=op.get("named", True))
            model.add(op["name"], [], False)
            for m in op["mids"]:
                w.register(op["name"], m)
                model.nodes[op["name"]]["own"][sigkey(spec, m)] = [m, None]
        elif k == "copy":
            if op["src"] not in w.funcs:
                continue
            ov = w.funcs[op["src"]].copy(linkback=op["linkback"])
            if op.get("named", True):
                ov.rename(op["name"], op["name"])
            w.funcs[op["name"]] = ov
            model.add(op["name"], [op["src"]], op["linkback"])
        elif k == "variant":
            if op["src"] not in w.funcs:
                continue
            ov = w.funcs[op["src"]].variant(w.method(op["mid"]),
                                            priority=spec["methods"][op["mid"]].get("prio", 0),
                                            linkback=op["linkback"])
            if op.get("named", True):
                ov.rename(op["name"], op["name"])
            w.funcs[op["name"]] = ov
            model.add(op["name"], [op["src"]], op["linkback"])
            model.nodes[op["name"]]["own"][sigkey(spec, op["mid"])] = [op["mid"], None]
        elif k == "mix":
            if any(p not in w.funcs for p in op["parents"]):
                continue
            ov = Ovld(mixins=[w.funcs[p] for p in op["parents"]], linkback=op["linkback"])
            if op.get("named", True):
                ov.rename(op["name"], op["name"])
            w.funcs[op["name"]] = ov
            model.add(op["name"], op["parents"], op["linkback"])
        elif k in ("register", "unregister", "addmix"):
            node = op["node"]
            if node not in w.funcs or (k == "addmix" and op["parent"] not in w.funcs):
                continue
            if k == "register" and sigkey(spec, op["mid"]) in model.nodes[node]["own"]:
                continue  # (shrinking may produce this) keep one method per key
            verdict = model.verdict(node)
            if any(model.nodes[n]["used"] for n in model.order):
                stats["mods_after_use"] += 1
            try:
                if k == "register":
                    w.register(node, op["mid"])
                elif k == "unregister":
                    w.unregister(node, op["mid"])
                else:
                    w.funcs[node].add_mixins(w.funcs[op["parent"]])
                res = "ok"
            except Exception as e:  # noqa: BLE001
                res = classify(e)
            trace.append([k, res if res == "ok" else res[:2]])
            if res == "ok":
                if verdict == "must_refuse":
                    violation = {"clause": "an ancestor of a function that is in use accepted a modification the "
                                           "descendant cannot learn of (silent drift)",
                                 "op_index": i, "op": op, "symptom": "accepted:" + k}
                    break
                if verdict == "either":
                    stats["either"] += 1
                elif model.routes_kinds(node):
                    stats["propagated"] += 1
                # apply to the model
                if k == "register":
                    model.nodes[node]["own"][sigkey(spec, op["mid"])] = [op["mid"], None]
                elif k == "unregister":
                    own = model.nodes[node]["own"]
                    for kk in [kk for kk, vv in own.items() if vv[0] == op["mid"]]:
                        del own[kk]
                else:
                    model.nodes[node]["parents"].append(op["parent"])
            else:
                stats["refused"] += 1
                if verdict == "must_succeed":
                    violation = {"clause": "a modification that every user of the function can see was refused",
                                 "op_index": i, "op": op, "result": res, "symptom": "refused:" + k}
                    break
                if verdict == "either":
                    stats["either"] += 1
        elif k == "call":
            if op["node"] not in w.funcs:
                continue
            model.nodes[op["node"]]["used"] = True
            got = canon_order(w.call(op["node"], op["c"]))
            ref = canon_order(node_ref(op["node"], [op["c"]])[0])
            trace.append(got)
            if got != ref:
                violation = {"clause": "a node differs from a fresh function built from its parents' methods plus its own",
                             "when": "call", "op_index": i, "node": op["node"], "call": op["c"],
                             "observed": got, "expected": ref, "regs": model.regs(op["node"]),
                             "symptom": symptom(got, ref)}
                break
        # after every modification, every node already in use must still equal its reference
        if k in ("register", "unregister", "addmix") and violation is None:
            for name in model.order:
                if model.nodes[name]["used"]:
                    violation = check_node(name, i, "after-" + k + ("-refused" if res != "ok" else ""))
                    if violation:
                        break
            if violation:
                break
    if violation is None:
        for name in model.order:
            violation = check_node(name, len(scen["ops"]), "end")
            if violation:
                break
    shape = sorted((len(model.nodes[n]["parents"]), model.nodes[n]["linkback"], model.nodes[n]["used"])
                   for n in model.order)
    depth = 0
    for n in model.order:
        d, cur = 0, n
        while model.nodes[cur]["parents"]:
            cur = model.nodes[cur]["parents"][0]
            d += 1
        depth = max(depth, d)
    return {"violation": violation, "digest": stable_hash(trace), "stats": stats,
            "graph_shape": stable_hash(shape), "depth": depth, "nnodes": len(model.order)}


def symptom(p, r):
    def k(o):
        return "ok" if o[0] == "ok" else o[2][0]
    return f"{k(p)}-instead-of-{k(r)}"


def run_job(job):
    stats = {"evaluations": 0, "nontrivial": [], "ops": 0, "refused": 0, "propagated": 0,
             "either": 0, "mods_after_use": 0, "graph_shapes": [], "by_depth": {}}
    violations = []
    nviol = 0
    dig = 0
    samples = []
    for index in range(job["index"], job["index"] + job["count"]):
        scen = gen_scenario(job["seed"], index)
        r = execute(scen)
        stats["evaluations"] += 1
        stats["ops"] += len(scen["ops"])
        for k in ("refused", "propagated", "either", "mods_after_use"):
            stats[k] += r["stats"][k]
        stats["graph_shapes"].append(r["graph_shape"])
        stats["by_depth"][str(r["depth"])] = stats["by_depth"].get(str(r["depth"]), 0) + 1
        if r["stats"]["mods_after_use"]:
            stats["nontrivial"].append(stable_hash([o for o in scen["ops"]]))
        dig = (dig * 1000003 + r["digest"]) & ((1 << 61) - 1)
        if r["violation"]:
            nviol += 1
            if len(violations) < 5:
                violations.append((scen, r["violation"]))
        elif not samples and r["stats"]["mods_after_use"] and r["nnodes"] >= 3:
            samples.append({"ops": [{k: v for k, v in o.items() if k != "c"} for o in scen["ops"]]})
    return {"stats": stats, "violations": violations, "nviolations": nviol, "digest": dig,
            "samples": samples}


def jobs(tier, seed):
    if tier == "quick":
        for i in range(0, 12000, 75):
            yield {"seed": seed, "index": i, "count": 75}
    else:
        i = 0
        while True:
            yield {"seed": seed, "index": i, "count": 60}
            i += 60


def vclass(scen, v):
    return [v["clause"][:60], v.get("symptom", "")[:9], v.get("when", "")[:9]]


def op_pattern(scen):
    out = []
    for o in scen["ops"]:
        k = o["op"]
        if k in ("copy", "variant", "mix"):
            k += "+lb" if o.get("linkback") else ""
        out.append(k)
    return ",".join(out)[:160]


def signature(scen, v):
    return {"clause": v["clause"], "symptom": v.get("symptom"), "when": v.get("when"),
            "pattern": op_pattern(scen)}


def size(scen):
    return len(scen["ops"]) * 5 + len(scen["corpus"]) + sum(len(o.get("mids", [])) for o in scen["ops"])


def shrink_moves(scen):
    ops = scen["ops"]
    for i in range(len(ops) - 1, -1, -1):
        s2 = dict(scen)
        s2["ops"] = ops[:i] + ops[i + 1:]
        s2["label"] = scen["label"] + "'"
        yield s2
    for i, o in enumerate(ops):
        if o["op"] == "root" and len(o["mids"]) > 1:
            for j in range(len(o["mids"])):
                s2 = dict(scen)
                o2 = dict(o)
                o2["mids"] = o["mids"][:j] + o["mids"][j + 1:]
                s2["ops"] = ops[:i] + [o2] + ops[i + 1:]
                s2["label"] = scen["label"] + "'"
                yield s2
        if o["op"] == "variant":
            s2 = dict(scen)
            s2["ops"] = ops[:i] + [{"op": "copy", "src": o["src"], "name": o["name"],
                                     "linkback": o["linkback"]}] + ops[i + 1:]
            s2["label"] = scen["label"] + "'"
            yield s2
    for i in range(len(scen["corpus"]) - 1, -1, -1):
        if len(scen["corpus"]) > 1:
            s2 = dict(scen)
            s2["corpus"] = scen["corpus"][:i] + scen["corpus"][i + 1:]
            s2["label"] = scen["label"] + "'"
            yield s2


def coverage(agg):
    return {
        "evaluations": int(agg.get("evaluations", 0)),
        "distinct_nontrivial": len(agg.get("nontrivial", set())),
        "rule": "one evaluation = one history over a graph of functions; non-trivial = at least one modification "
                "(register/unregister/add_mixins) attempted after some node had been put to use; distinct by operation sequence",
        "operations": int(agg.get("ops", 0)),
        "modifications_after_use": int(agg.get("mods_after_use", 0)),
        "modifications_refused": int(agg.get("refused", 0)),
        "modifications_propagated_through_linkback": int(agg.get("propagated", 0)),
        "modifications_with_mixed_routes_either_accepted": int(agg.get("either", 0)),
        "distinct_graph_shapes": len(agg.get("graph_shapes", set())),
        "histories_by_max_derivation_depth": agg.get("by_depth", {}),
        "fault_kinds": "none (histories only)",
        "real_components": ["ovld.Ovld copy/variant/mixins/add_mixins/register/unregister, recode"],
        "simulated_components": ["operation history", "derivation-graph reference model",
                                 "set iteration order (canonical)"],
        "exhaustive": False,
    }
