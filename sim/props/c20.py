"""C20 - each argument-type combination is resolved at most once between changes.

After a warm-up that makes each successful corpus call once, repeats of those
calls - interleaved with disturbances: failing calls of other combinations,
calls hit by a hook failure or an interrupt, resolve / display_resolution, and
optionally a register / unregister after which one re-warm is allowed - must
perform no resolution work. Monitor: (a) no user hook counter moves during a
repeat, (b) the tracer sees no call of the library's type-order / applicability /
resolution functions during a repeat.
"""

import contextlib
import os
import pickle
import io
import json

from .. import gen
from ..common import Harness, begin_run, ref_outcomes
from ..rng import run_rng, stable_hash, weighted
from ..trace import HarnessError, Sim

ID = "C20"
NAME = "c20"
LEVEL = "exploration"
BUDGET = {"quick": 70, "thorough": 900}
ASSUMPTIONS = [
    "user hook types (class_check predicates, the parametrized class with __type_order__/__is_supertype__) are kept out "
    "of value-dependent combinators, where a per-call isinstance is inherent in value dispatch",
    "dictionary misses that compute nothing (fallback of a call_next lookup whose caller is not a candidate, zero-argument "
    "entry) are allowed: the statement excludes resolution work, not dict probing",
    "resolution entry points are identified by code object at start-up: mro.typeorder, mro.subclasscheck, "
    "mro.sort_types, MultiTypeMap.mro, MultiTypeMap.resolve, TypeMap.__missing__",
]

FEAT = gen.feat(
    p_self=0.1,
    ann={"c": 5, "o": 2.5, "u": 1.2, "x": 0.7, "h": 2.5, "ph": 1.5, "ss": 0.5, "d": 0.5, "i": 0.3},
    bodies={"next_try": 0.6, "leaf": 3, "next": 4, "rec": 2, "fnext": 0.6, "next2": 0.5, "next_other": 0.6,
            "rec_next": 0.8},
    p_alias=0.5,  # class-object arguments may be parametrized aliases (list[int]): an unbounded key space
    p_kw=0.15, p_optional=0.15, ncorpus=(4, 8), nmeth=(3, 8), p_dup_sig=0.08, p_prio=0.3,
    swarm_drop=0.25,
)


import re  # noqa: E402

_DEP = re.compile(r"^(P\d+|Rem)$")


def monitored_codes():
    import ovld.mro as mro
    import ovld.typemap as tm

    out = {}
    missing = []
    for label, getter in [
        ("mro.typeorder", lambda: mro.typeorder.__code__),
        ("mro.subclasscheck", lambda: mro.subclasscheck.__code__),
        ("mro.sort_types", lambda: mro.sort_types.__code__),
        ("MultiTypeMap.mro", lambda: tm.MultiTypeMap.mro.__code__),
        ("MultiTypeMap.resolve", lambda: tm.MultiTypeMap.resolve.__code__),
        ("TypeMap.__missing__", lambda: tm.TypeMap.__missing__.__code__),
    ]:
        try:
            out[getter()] = label
        except AttributeError:
            missing.append(label)
    return out, missing


def gen_scenario(seed, index):
    s, rng = run_rng(ID, index, seed=seed)
    spec = gen.gen_world(rng, FEAT)
    gen.extra_class(spec)
    mids = list(spec["methods"])
    proto = spec["methods"][mids[0]]
    params = [[p[0], p[1], (["c", "KX"] if i == 0 else p[2]), False]
              for i, p in enumerate(proto["params"]) if p[1] != "kw"]
    spec["methods"]["mx"] = {"params": params, "prio": 0, "body": ["leaf"]}
    regs = [[m] for m in rng.sample(mids, rng.randint(2, len(mids)))]
    corpus = gen.gen_corpus(rng, spec, FEAT)
    n = rng.randint(5, 40)
    ops = []
    mutated = False
    for _ in range(n):
        k = weighted(rng, [("repeat", 60), ("sibling", 10), ("fail", 12), ("fault", 12), ("resolve", 6),
                           ("display", 3), ("derive", 4), ("introspect", 5), ("abc", 3),
                           ("registry", 2), ("flood", 1.5), ("refused", 3), ("fork", 1.5), ("rebind", 2),
                           ("mutate", 3 if not mutated else 0.5)])
        if k in ("repeat", "fail"):
            ops.append({"op": k, "i": rng.randrange(len(corpus))})
        elif k == "sibling":
            # the same argument TYPES with other values: class objects replaced by another plain class
            ops.append({"op": "sibling", "i": rng.randrange(len(corpus)), "pick": rng.randrange(1000)})
        elif k == "fault":
            kind = weighted(rng, [("crash", 6), ("hook", 4)])
            ops.append({"op": "fault", "i": rng.randrange(len(corpus)), "kind": kind,
                        "frac": rng.random(),
                        "exc": rng.choice(["interrupt", "memory"]) if kind == "crash"
                        else rng.choice(["runtime", "type", "interrupt"])})
        elif k in ("resolve", "display"):
            ops.append({"op": k, "i": rng.randrange(len(corpus))})
        elif k == "introspect":
            ops.append({"op": "introspect",
                        "what": rng.choice(["signature", "doc", "display_methods", "repr", "dir"])})
        elif k == "abc":
            # an unrelated ABC registration somewhere else in the process (bumps abc's cache token)
            ops.append({"op": "abc"})
        elif k == "registry":
            # an unrelated generic registered with the library's annotation normaliser
            ops.append({"op": "registry"})
        elif k == "refused":
            # a registration the library refuses (a *args function): the method set does not change
            ops.append({"op": "refused"})
        elif k == "fork":
            # the rest of the history runs in a forked copy of the process (same functions, same
            # method sets, same caches)
            ops.append({"op": "fork"})
        elif k == "rebind":
            # the function object is also made an attribute of some other, new class
            ops.append({"op": "rebind"})
        elif k == "flood":
            # many first-time argument types (fresh subclasses): a bounded cache must not evict
            # what was resolved before
            ops.append({"op": "flood", "n": rng.choice([40, 120, 300]), "i": rng.randrange(len(corpus))})
        elif k == "derive":
            # deriving a child (copy / variant / mixin combination) does not change f's own methods
            ops.append({"op": "derive", "how": rng.choice(["copy", "variant", "mixin"]),
                        "linkback": rng.random() < 0.6, "use": rng.random() < 0.5,
                        "i": rng.randrange(len(corpus))})
        else:
            mutated = True
            if rng.random() < 0.6:
                ops.append({"op": "register", "mid": "mx"})
            else:
                ops.append({"op": "unregister", "mid": rng.choice(regs)[0]})
    scen = {"label": f"seed:{s}", "spec": spec, "regs": regs, "corpus": corpus, "ops": ops}
    has_fnext = any(spec["methods"][r[0]]["body"][0] == "fnext" for r in regs)
    if rng.random() < 0.25 and not has_fnext:
        # the function under test is a linked child (copy with linkback) of a parent that holds the
        # methods and has never been called; "parent_call" disturbances use the parent
        scen["as_child"] = True
        for _ in range(rng.randint(1, 3)):
            ops.insert(rng.randrange(len(ops) + 1), {"op": "parent_call", "i": rng.randrange(len(corpus))})
    return scen


def type_combo(c):
    def t(v):
        return v[1] if v[0] in ("n", "T") else v[0]
    return json.dumps([[("T:" if a[0] == "T" else "") + t(a) for a in c.get("args", [])],
                       sorted((k, t(v)) for k, v in c.get("kw", {}).items()),
                       c.get("kind", "call")])


def execute(scen):
    ctx = {"child_fd": None}
    try:
        res = _execute(scen, ctx)
    except BaseException as e:  # noqa: BLE001
        if ctx["child_fd"] is None:
            raise
        res = {"child_error": repr(e)[:500]}
    if ctx["child_fd"] is not None:
        # we are the forked copy: hand the result to the original process and vanish
        try:
            data = pickle.dumps(res)
            while data:
                n = os.write(ctx["child_fd"], data)
                data = data[n:]
        finally:
            os._exit(0)
    return res


def _execute(scen, ctx):
    if scen.get("threaded"):
        return execute_threads(scen)
    begin_run()
    spec = scen["spec"]
    codes, missing = monitored_codes()
    if scen.get("as_child"):
        h = Harness(spec, scen["regs"], fname="p")
        child = h.ov.copy(linkback=True)
        child.rename("f", "f")
        h.w.funcs["f"] = child
        h.fname = "f"
    else:
        h = Harness(spec, scen["regs"])
    target = "p" if scen.get("as_child") else "f"  # where registrations go
    regs = [list(r) for r in scen["regs"]]
    corpus = scen["corpus"]
    violation = None
    trace = []
    warmed = set()  # indices of corpus calls that succeeded since the last change
    stats = {"repeats_checked": 0, "disturb": {}, "faults_fired": 0, "rewarms": 0}

    def monitored_call(c):
        sim = Sim(monitor_codes=codes)
        hooks0 = dict(h.w.hooks.counts)
        out, exc, steps = sim.run(lambda: h.w.call("f", c))
        moved = {k: v - hooks0.get(k, 0) for k, v in h.w.hooks.counts.items() if v != hooks0.get(k, 0)}
        # dependent-type predicates are value-level conditions, evaluated per call by design
        moved = {k: v for k, v in moved.items() if not _DEP.match(k)}
        return out, moved, sorted(set(sim.monitor_hits)), steps

    import ovld.typemap as _tm

    exc_codes = {_tm.MultiTypeMap.resolve.__code__: "resolve",
                 _tm.MultiTypeMap.__missing__.__code__: "__missing__"}

    def warm_all():
        for i, c in enumerate(corpus):
            # a call counts as "successfully handled" only if no resolution of a plain argument
            # tuple failed inside it (a method may swallow the TypeError of a nested call whose
            # combination has no method: that combination is legitimately resolved again each time)
            sim = Sim()
            sim.exc_codes = exc_codes
            out, exc, _ = sim.run(lambda: h.w.call("f", c))
            nested_failure = any(h_[1] for h_ in sim.exc_hits)
            if exc is None and out[0] == "ok" and not nested_failure:
                warmed.add(i)
                stats["rewarms"] += 1
            elif exc is None and out[0] == "ok":
                stats["disturb"]["ok_with_swallowed_failure"] = \
                    stats["disturb"].get("ok_with_swallowed_failure", 0) + 1

    # classes whose own type is plain `type` (a subclass of an ABC has metaclass ABCMeta)
    plain = [n for n, _, _ in spec["classes"]
             if n not in ("KX", "KM") and type(getattr(h.w.mod, n)) is type]

    def sibling_of(c, pick):
        """Same argument types, other values: a class object passed at a position that is keyed
        by plain type() is replaced by another class of the same metaclass."""
        fl = spec["meta"]["flavour"]
        out, changed = [], False
        for p, a in enumerate(c.get("args", [])):
            if a[0] == "T" and a[1] in plain and p < len(fl) and fl[p] != "type" and len(plain) > 1:
                others = [n for n in plain if n != a[1]]
                out.append(["T", others[pick % len(others)]])
                changed = True
            else:
                out.append(a)
        if not changed:
            return None
        c2 = dict(c)
        c2["args"] = out
        return c2

    # positions where some method has a generic-alias annotation are keyed by the class itself
    generic_pos = set()
    for r in scen["regs"]:
        for p, prm in enumerate(spec["methods"][r[0]]["params"]):
            if prm[2][0] == "t":
                generic_pos.add(p)

    warm_all()
    for j, op in enumerate(scen["ops"]):
        k = op["op"]
        if k == "sibling":
            i = op["i"]
            c2 = sibling_of(corpus[i], op["pick"]) if i in warmed and not generic_pos else None
            if c2 is not None:
                ref = ref_outcomes(spec, regs, [c2], scen["label"])[0]
                # only when the sibling takes the same route (same methods entered), so that no
                # new nested combination can legitimately appear
                ref0 = ref_outcomes(spec, regs, [corpus[i]], scen["label"])[0]
                if ref[0] == "ok" and ref[1] == ref0[1]:
                    out, moved, hits, steps = monitored_call(c2)
                    stats["repeats_checked"] += 1
                    stats["disturb"]["sibling_values"] = stats["disturb"].get("sibling_values", 0) + 1
                    trace.append(["sib", i, out[0], steps])
                    if out[0] == "ok" and (moved or hits):
                        violation = {"clause": "a call with an already handled argument-type combination (other "
                                               "values of the same types) performed type-order / applicability "
                                               "computation",
                                     "op_index": j, "call": c2, "warmed_by": corpus[i],
                                     "hooks_consulted": moved, "resolution_functions_called": hits,
                                     "symptom": "recomputed-sibling:" + ",".join(hits[:2] or sorted(moved)[:2])}
                        break
            continue
        if k in ("repeat", "fail"):
            i = op["i"]
            c = corpus[i]
            if i in warmed:
                out, moved, hits, steps = monitored_call(c)
                stats["repeats_checked"] += 1
                trace.append([i, out[0], steps])
                if out[0] != "ok":
                    violation = {"clause": "a repeat of a successful call no longer succeeds",
                                 "op_index": j, "call": c, "observed": out, "symptom": "repeat-failed"}
                    break
                if moved or hits:
                    violation = {"clause": "a repeat of an already handled argument-type combination performed "
                                           "type-order / applicability computation",
                                 "op_index": j, "call": c, "hooks_consulted": moved,
                                 "resolution_functions_called": hits,
                                 "symptom": "recomputed:" + ",".join(hits[:2] or sorted(moved)[:2])}
                    break
            else:
                out = h.w.call("f", c)
                trace.append([i, out[0]])
                stats["disturb"]["failing_call"] = stats["disturb"].get("failing_call", 0) + 1
        elif k == "fault":
            c = corpus[op["i"]]
            # only disturb with combinations that are not warmed themselves (their own
            # interrupted resolution is C18's business) or with warmed ones (must stay cheap)
            sim = Sim()
            if op["kind"] == "crash":
                if "k" not in op:
                    # dry length on a clone is not available here; estimate from a traced run of a failing/new call
                    op["k"] = 1 + int(op["frac"] * 400)
                out, exc, _ = sim.run(lambda: h.w.call("f", c), crash_at=op["k"], crash_exc=op["exc"])
                fired = bool(sim.crash_fired)
            else:
                if "nth" not in op:
                    op["nth"] = 1 + int(op["frac"] * 6)
                h.w.hooks.plan = [{"hook": None, "nth": h.w.hooks.total + op["nth"], "exc": op["exc"]}]
                out, exc, _ = sim.run(lambda: h.w.call("f", c))
                fired = bool(h.w.hooks.fired)
                h.w.hooks.fired = []
                h.w.hooks.plan = []
            if fired:
                stats["faults_fired"] += 1
                stats["disturb"]["fault:" + op["kind"]] = stats["disturb"].get("fault:" + op["kind"], 0) + 1
            trace.append(["fault", fired])
        elif k == "rebind":
            try:
                type("Rebound", (), {"meth": h.w.funcs["f"]})
            except Exception:  # noqa: BLE001
                pass
            stats["disturb"]["rebind"] = stats["disturb"].get("rebind", 0) + 1
        elif k == "fork":
            if ctx["child_fd"] is not None:
                continue  # one level is enough
            rfd, wfd = os.pipe()
            pid = os.fork()
            if pid == 0:
                os.close(rfd)
                ctx["child_fd"] = wfd
                stats["disturb"]["fork"] = stats["disturb"].get("fork", 0) + 1
                trace.append(["fork"])
                continue
            os.close(wfd)
            chunks = []
            while True:
                b = os.read(rfd, 1 << 16)
                if not b:
                    break
                chunks.append(b)
            os.close(rfd)
            os.waitpid(pid, 0)
            res = pickle.loads(b"".join(chunks)) if chunks else {"child_error": "no result"}
            if "child_error" in res:
                raise HarnessError("forked continuation failed: " + res["child_error"])
            return res
        elif k == "resolve":
            c = corpus[op["i"]]
            if not c.get("kw"):
                h.w.call("f", dict(c, kind="resolve"))
                stats["disturb"]["resolve"] = stats["disturb"].get("resolve", 0) + 1
        elif k == "display":
            c = corpus[op["i"]]
            try:
                with contextlib.redirect_stdout(io.StringIO()):
                    args = [h.w.value(v) for v in c.get("args", [])]
                    kw = {kk: h.w.value(v) for kk, v in c.get("kw", {}).items()}
                    h.ov.display_resolution(*args, **kw)
                stats["disturb"]["display_resolution"] = stats["disturb"].get("display_resolution", 0) + 1
            except Exception:  # noqa: BLE001
                pass
        elif k == "introspect":
            import inspect

            try:
                with contextlib.redirect_stdout(io.StringIO()):
                    what = op["what"]
                    if what == "signature":
                        str(inspect.signature(h.ov.dispatch))
                        list(inspect.signature(h.ov.dispatch).parameters)
                    elif what == "doc":
                        h.ov.__doc__
                        h.ov.dispatch.__doc__
                    elif what == "display_methods":
                        h.ov.display_methods()
                    elif what == "repr":
                        repr(h.ov), repr(h.ov.dispatch)
                    else:
                        dir(h.ov.dispatch)
                stats["disturb"]["introspect:" + what] = stats["disturb"].get("introspect:" + what, 0) + 1
            except Exception as e:  # noqa: BLE001
                trace.append(["introspect-error", op["what"], type(e).__name__])
        elif k == "refused":
            try:
                h.w.funcs[target].register(h.w.mod.MVARARGS)
                trace.append(["refused-accepted"])
            except Exception as e:  # noqa: BLE001
                trace.append(["refused", type(e).__name__])
            stats["disturb"]["refused_registration"] = stats["disturb"].get("refused_registration", 0) + 1
        elif k == "registry":
            from ovld.types import normalize_type

            G = type(f"G{j}", (), {})  # any new origin class will do: it is never looked up
            try:
                normalize_type.register_generic(G, lambda self, t, fn: object)
            except Exception as e:  # noqa: BLE001
                trace.append(["registry-error", type(e).__name__])
            finally:
                gh = normalize_type.generic_handlers
                gh.types.discard(G)
                gh.entries.pop(G, None)
                dict.clear(gh)
            stats["disturb"]["register_generic"] = stats["disturb"].get("register_generic", 0) + 1
        elif k == "flood":
            c = corpus[op["i"]]
            if c.get("args") and c["args"][0][0] == "n" and not c.get("kw") \
                    and len(c["args"]) >= spec["meta"]["min_ar"]:
                base = getattr(h.w.mod, c["args"][0][1])
                rest = [h.w.value(v) for v in c["args"][1:]]
                for q in range(op["n"]):
                    sub = type(f"Flood{j}_{q}", (base,), {})
                    try:
                        h.ov.dispatch(sub(0, []), *rest) if not spec["meta"].get("self") else None
                    except Exception:  # noqa: BLE001
                        pass
                h.w.log.take()
                stats["disturb"]["flood"] = stats["disturb"].get("flood", 0) + 1
        elif k == "abc":
            import collections.abc

            collections.abc.Sized.register(type(f"Unrelated{j}", (), {}))
            stats["disturb"]["abc_register"] = stats["disturb"].get("abc_register", 0) + 1
        elif k == "derive":
            from ovld import Ovld

            try:
                if op["how"] == "copy":
                    child = h.ov.copy(linkback=op["linkback"])
                elif op["how"] == "variant":
                    child = h.ov.variant(h.w.method("mx"), linkback=op["linkback"])
                else:
                    child = Ovld(mixins=[h.ov], linkback=op["linkback"])
                nm = f"child{j}"
                child.rename(nm, nm)
                h.w.funcs[nm] = child
                if op["use"]:
                    h.w.call(nm, corpus[op["i"]])
                stats["disturb"]["derive:" + op["how"]] = stats["disturb"].get("derive:" + op["how"], 0) + 1
            except Exception as e:  # noqa: BLE001
                trace.append(["derive-error", type(e).__name__])
        elif k == "parent_call":
            if scen.get("as_child"):
                h.w.call("p", corpus[op["i"]])
                stats["disturb"]["parent_call"] = stats["disturb"].get("parent_call", 0) + 1
        elif k in ("register", "unregister"):
            try:
                (h.w.register if k == "register" else h.w.unregister)(target, op["mid"])
                r = ["ok"]
            except Exception as e:  # noqa: BLE001
                r = ["err", type(e).__name__]
            trace.append([k, r[0]])
            stats["disturb"][k] = stats["disturb"].get(k, 0) + 1
            warmed.clear()
            warm_all()  # one re-warm per combination is allowed; the clock restarts
    return {"violation": violation, "digest": stable_hash(trace), "stats": stats,
            "missing_monitor_points": missing,
            "warmed": len(warmed), "combos": sorted({type_combo(corpus[i]) for i in warmed})}


# --------------------------------------------------------------------------
# threaded variant: a thread that repeats a call it has itself completed successfully must not
# find the combination un-resolved again, whatever the other threads are doing meanwhile


def execute_threads(scen):
    from ..trace import Deadlock, Scheduler, SimRLock, StepCap
    from . import c19

    strategy, script = c19.make_strategy(scen)
    begin_run()
    SimRLock.reset_all()
    codes, missing = monitored_codes()
    h = Harness(scen["spec"], scen["regs"])
    for c in scen["prewarm"]:
        h.w.call("f", c)
    from ..trace import HOT_FUNCS

    sim = Sim(trace_world=True, step_cap=600_000, monitor_codes=codes,
              opcode_funcs=HOT_FUNCS if scen.get("opcode") else None)
    sim.monitor_tagged = True
    import ovld.typemap as _tm

    sim.exc_codes = {_tm.MultiTypeMap.resolve.__code__: "resolve",
                     _tm.MultiTypeMap.__missing__.__code__: "__missing__"}
    n = len(scen["threads"])
    sched = Scheduler(sim, n, strategy=strategy, script=script)
    results = [[None] * len(ops) for ops in scen["threads"]]

    def body(tid):
        for i, c in enumerate(scen["threads"][tid]):
            sim.monitor_tag[tid] = i
            results[tid][i] = h.w.call("f", c)

    violation = None
    try:
        sched.run([body] * n, first=scen.get("first", 0))
    except StepCap:
        pass
    repeats = 0
    for tid, ops in enumerate(scen["threads"]):
        for i, c in enumerate(ops):
            # (type-strict comparison of the call specs: 2 == 2.0 == True in Python)
            prior = [j for j in range(i)
                     if json.dumps(ops[j], sort_keys=True) == json.dumps(c, sort_keys=True)
                     and results[tid][j] and results[tid][j][0] == "ok"]
            if not prior or not results[tid][i]:
                continue
            # (a swallowed nested failure makes the call recompute legitimately, see warm_all)
            failing = {(t, tag) for _, plain, t, tag in sim.exc_hits if plain}
            prior = [j for j in prior if (tid, j) not in failing]
            if not prior or (tid, i) in failing:
                continue
            repeats += 1
            hits = sorted({lab for (t, tag, lab) in sim.monitor_hits if t == tid and tag == i})
            if hits and violation is None:
                violation = {"clause": "a thread repeating a call it had already completed found the "
                                       "argument-type combination unresolved again (concurrent callers)",
                             "thread": tid, "op": i, "call": c, "resolution_functions_called": hits,
                             "switches": sched.switches[:40],
                             "symptom": "recomputed-under-threads:" + ",".join(hits[:2])}
    digest = sim.digest ^ stable_hash([results, sched.switches])
    return {"violation": violation, "digest": digest, "switches": sched.switches,
            "repeats": repeats, "steps": sim.step}


def threads_scenario(seed, index):
    from . import c19

    scen = c19.seeded_scenario(seed, index)
    s, rng = run_rng(ID, index, seed=seed, salt="threads")
    # make sure some thread repeats a call
    for ops in scen["threads"]:
        if rng.random() < 0.7:
            ops.append(dict(ops[rng.randrange(len(ops))]))
    scen["threaded"] = True
    return scen


def run_job(job):
    if job.get("kind") == "threads":
        from . import c19

        stats = {"evaluations": 0, "nontrivial": [], "threaded_runs": 0, "threaded_repeats": 0}
        violations = []
        nviol = 0
        dig = 0
        for index in range(job["index"], job["index"] + job["count"]):
            scen = threads_scenario(job["seed"], index)
            r = execute_threads(scen)
            stats["evaluations"] += 1
            stats["threaded_runs"] += 1
            stats["threaded_repeats"] += r["repeats"]
            if r["repeats"] and r["switches"]:
                stats["nontrivial"].append(stable_hash([scen["label"], r["switches"]]))
            dig = (dig * 1000003 + r["digest"]) & ((1 << 61) - 1)
            if r["violation"]:
                nviol += 1
                if len(violations) < 4:
                    violations.append((c19.scripted(scen, r["switches"]), r["violation"]))
        return {"stats": stats, "violations": violations, "nviolations": nviol, "digest": dig,
                "samples": []}
    return run_job_histories(job)


def run_job_histories(job):
    stats = {"evaluations": 0, "nontrivial": [], "repeats_checked": 0, "disturb": {},
             "faults_fired": 0, "ops": 0, "combos": [], "missing_monitor_points": []}
    violations = []
    nviol = 0
    dig = 0
    samples = []
    for index in range(job["index"], job["index"] + job["count"]):
        scen = gen_scenario(job["seed"], index)
        r = execute(scen)
        stats["evaluations"] += 1
        stats["ops"] += len(scen["ops"])
        stats["repeats_checked"] += r["stats"]["repeats_checked"]
        stats["faults_fired"] += r["stats"]["faults_fired"]
        for k, v in r["stats"]["disturb"].items():
            stats["disturb"][k] = stats["disturb"].get(k, 0) + v
        stats["missing_monitor_points"].extend(r["missing_monitor_points"])
        for cmb in r["combos"]:
            stats["combos"].append(stable_hash([scen["label"], cmb]))
        if r["stats"]["repeats_checked"] and r["stats"]["disturb"]:
            stats["nontrivial"].append(stable_hash([scen["label"], scen["ops"]]))
        dig = (dig * 1000003 + r["digest"]) & ((1 << 61) - 1)
        if r["violation"]:
            nviol += 1
            if len(violations) < 5:
                violations.append((scen, r["violation"]))
        elif not samples and r["stats"]["repeats_checked"] > 3 and r["stats"]["disturb"]:
            samples.append({"regs": scen["regs"], "ops": scen["ops"][:14],
                            "repeats_checked": r["stats"]["repeats_checked"]})
    return {"stats": stats, "violations": violations, "nviolations": nviol, "digest": dig,
            "samples": samples}


def jobs(tier, seed):
    if tier == "quick":
        for i in range(0, 8000, 100):
            yield {"seed": seed, "index": i, "count": 100}
        for i in range(0, 1600, 25):
            yield {"kind": "threads", "seed": seed, "index": i, "count": 25}
    else:
        i = j = 0
        while True:
            for _ in range(3):
                yield {"seed": seed, "index": i, "count": 100}
                i += 100
            yield {"kind": "threads", "seed": seed, "index": j, "count": 25}
            j += 25


def vclass(scen, v):
    return [v["clause"][:50], (v.get("symptom") or "")[:30]]


def _c19():
    from . import c19

    return c19


def signature(scen, v):
    if scen.get("threaded"):
        return {"clause": v["clause"], "symptom": v.get("symptom"), "threads": len(scen["threads"])}
    kinds = [o["op"] for o in scen["ops"]]
    return {"clause": v["clause"], "symptom": v.get("symptom"),
            "disturbances": ",".join(sorted(set(k for k in kinds if k not in ("repeat",))))}


def size(scen):
    if scen.get("threaded"):
        return _c19().size(scen)
    return len(scen["ops"]) * 4 + len(scen["corpus"]) * 3 + len(scen["regs"]) * 3


def shrink_moves(scen):
    if scen.get("threaded"):
        yield from _c19().shrink_moves(scen)
        return
    ops = scen["ops"]
    if len(ops) > 6:
        for lo, hi in ((0, len(ops) // 2), (len(ops) // 2, len(ops))):
            s2 = dict(scen)
            s2["ops"] = ops[:lo] + ops[hi:]
            s2["label"] = scen["label"] + "'"
            yield s2
    for i in range(len(ops) - 1, -1, -1):
        s2 = dict(scen)
        s2["ops"] = ops[:i] + ops[i + 1:]
        s2["label"] = scen["label"] + "'"
        yield s2
    for i in range(len(scen["regs"]) - 1, -1, -1):
        if len(scen["regs"]) > 1:
            s2 = dict(scen)
            s2["regs"] = scen["regs"][:i] + scen["regs"][i + 1:]
            s2["label"] = scen["label"] + "'"
            yield s2
    for i in range(len(scen["corpus"]) - 1, -1, -1):
        if len(scen["corpus"]) > 1:
            s2 = dict(scen)
            s2["corpus"] = scen["corpus"][:i] + scen["corpus"][i + 1:]
            s2["ops"] = [dict(o, i=(o["i"] - 1 if o.get("i", -1) > i else o.get("i")))
                         if "i" in o else o for o in ops if o.get("i") != i]
            s2["label"] = scen["label"] + "'"
            yield s2


def coverage(agg):
    return {
        "evaluations": int(agg.get("evaluations", 0)),
        "distinct_nontrivial": len(agg.get("nontrivial", set())),
        "rule": "one evaluation = one history (warm-up, then repeats interleaved with disturbances); non-trivial = at "
                "least one monitored repeat and at least one disturbance; distinct by (world, operation sequence)",
        "monitored_repeats": int(agg.get("repeats_checked", 0)),
        "threaded_runs": int(agg.get("threaded_runs", 0)),
        "threaded_monitored_repeats": int(agg.get("threaded_repeats", 0)),
        "distinct_warmed_type_combinations": len(agg.get("combos", set())),
        "disturbances_by_kind": agg.get("disturb", {}),
        "faults_fired": int(agg.get("faults_fired", 0)),
        "operations": int(agg.get("ops", 0)),
        "monitor_points_missing_in_this_tree": sorted(agg.get("missing_monitor_points", set())),
        "real_components": ["ovld (all of it)"],
        "simulated_components": ["call history", "injected hook failures / interrupts in disturbing calls",
                                 "resolution-activity monitor (trace function call events)",
                                 "set iteration order (canonical)"],
        "exhaustive": False,
    }
