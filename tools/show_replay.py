#!/venv/bin/python
"""Human-readable view of a replay file."""
import json
import sys

sys.path.insert(0, "/verif")
from sim.world import method_src  # noqa: E402


def main(path):
    r = json.load(open(path))
    s = r["scenario"]
    fam = s.get("family", s)
    print("property", r["property"], "signature", json.dumps(r.get("signature")))
    print("violation", json.dumps(r["violation"], sort_keys=True)[:1500])
    spec = fam["spec"]
    print("classes", spec["classes"], "virtual", spec.get("virtual"))
    print("hooks", spec.get("hooks"), "deps", spec.get("deps"))
    used = [x[0] for x in fam.get("regs", [])]
    extra = set()
    for k in ("config",):
        if k in s and isinstance(s[k], dict):
            extra.update(s[k].get("extras") or [])
    for mid in list(dict.fromkeys(used + sorted(extra) + [m for m in spec["methods"] if m in json.dumps(s.get("ops", ""))])):
        if mid in spec["methods"]:
            print(f"# prio={spec['methods'][mid].get('prio', 0)}")
            print(method_src(mid, spec["methods"][mid]))
    for k, v in s.items():
        if k in ("family", "spec"):
            continue
        print(k, "=", json.dumps(v)[:1200])
    if "family" in s:
        for k, v in fam.items():
            if k != "spec":
                print("family." + k, "=", json.dumps(v)[:1200])


if __name__ == "__main__":
    main(sys.argv[1])
