#!/venv/bin/python
"""Regenerate MANIFEST.json from the table below (single source of truth)."""
import json
import os
import subprocess

HERE = os.path.dirname(os.path.dirname(os.path.abspath(__file__)))

NA = {
    "C01": "pure function of (hierarchy, method set, call): no schedule, crash point, fault or history in its quantifier; deciding it is input generation against an isinstance oracle, not simulation",
    "C02": "pure function of (class DAG, method set, argument classes); needs an independent model of the dominance rule over enumerated DAGs; its only nondeterminism (set order) is C06's subject",
    "C03": "correctness of generated entry-point code for every call shape: pure, no state, time, fault or interleaving",
    "C07": "the call_next chain is a pure function of method set and arguments; its stateful aspects (warming order, races, crash between writes) are exercised under C04/C19/C18",
    "C08": "pure function of the derivation graph and the input; graph-building histories are C16's subject",
    "C09": "translation validation of an AST rewrite over a grammar of programs; no run-time nondeterminism",
    "C10": "pure value-level semantics of generated dependent dispatchers",
    "C11": "pure value-level semantics of Literal / built-in value types and the three code-generation strategies",
    "C12": "algebraic law of a pure binary function over pairs/triples of types",
    "C13": "algebraic/semantic laws of a pure subtype test",
    "C14": "pure function of method set and passed type object",
    "C15": "metamorphic equivalence of annotation spellings; pure",
    "C17": "class-construction-time merging is a pure function of the class-definition program; nothing to schedule or fault",
}

CHECKS = {
    "C18": dict(
        category="fault_enumeration",
        text="Every executed library line event of first-use build, rebuild after register / unregister / replacement by a twin, "
             "retry after an invalid method (rejected while adapted, or by argument analysis), rebuild after removing it, and "
             "cache-miss resolution, and the first call of a plain copy, is a crash point (interrupt and MemoryError), also with an already built linked child; plus every "
             "user-hook invocation failing and every rewritten method's source read failing. After each fault all corpus calls, a "
             "further valid registration and a recovery change are compared with freshly built functions. Quick: all visits of all "
             "core/typemap lines and the first two visits elsewhere on three fixed worlds plus a 1-in-8 sample of 40 seeded families; "
             "thorough: every visit, bytecode granularity in the publishing functions, seeded families without end.",
        design_ref="DESIGN.md 4/C18",
        note="Trusted: CPython settrace semantics (exception from a line event = interrupt at that line), the fresh-build "
             "reference being the same library, canonical set order via the OVLD_VERIF seam. Faults inside C calls not modelled.",
        technique="deterministic simulation: crash-point enumeration via trace-function fault injection + fresh-build differential oracle",
    ),
}

CHECKS["C19"] = dict(
    category="exploration",
    text="Two (sampled: three) real caller threads under a baton-passing scheduler; every line event (sampled runs: every "
         "bytecode of the publishing functions) of library, generated and world code is a yield point. Quick: every single "
         "pre-emption placement of either thread in eleven racing shapes (same / different / ambiguous first-time types, cold or "
         "built) on three fixed worlds, every pair of placements (build-check path x entry point / method body / lookup; every "
         "visit of a resolution line x the other thread's redundant resolution) on one, plus 2400 seeded scenarios under placed / PCT / "
         "random-walk schedules. Each operation must equal its solo outcome on a fresh function, the function must afterwards "
         "agree with a fresh build on the whole corpus, no deadlock, bounded steps.",
    design_ref="DESIGN.md 4/C19",
    note="Line granularity under the GIL; library locks replaced by simulated locks so that blocking is a scheduler decision; "
         "free-threaded CPython and pre-emption inside C calls are not modelled. Sampling, not proof.",
    technique="deterministic simulation: seeded schedule search over real threads parked at trace-function yield points",
)

CHECKS["C06"] = dict(
    category="exploration",
    text="For seeded scenarios (worlds rich in overlapping unions, intersections, dependent types, equal sort keys), the corpus "
         "outcome vector is compared across configurations drawn from: a recorded permutation at every visit of every hooked "
         "set-iteration site, permutations of the registration order of distinct signatures, added methods that are inapplicable by "
         "construction, and fresh interpreters under other hash seeds / allocation patterns (seam-completeness audit).",
    design_ref="DESIGN.md 4/C06",
    note="Order sites are those of the OVLD_VERIF seam (sort_types.avail, TypeMap.__missing__ group/handlers, MultiTypeMap.mro "
         "candidates, the set of dependent-type kinds in generate_dependent_dispatch); unhooked sites are covered only by the foreign-interpreter audit. Ambiguity errors compared by kind. Sampling.",
    technique="deterministic simulation: seeded search over iteration-order / registration-order / environment configurations with replayable permutation scripts",
)

CHECKS["C05"] = dict(
    category="exploration",
    text="Seeded histories (4-24 operations) of register / re-register (twin function of identical signature, same function "
         "again, other priority) / unregister / call / resolve on an Ovld, and of register / lookup / call_next-style "
         "code-prefixed lookup on the public MultiTypeMap and TypeMap, biased to observe-mutate-observe. After every observation "
         "the outcome is compared with a brand-new function (table) built from the model's surviving registrations.",
    design_ref="DESIGN.md 4/C05",
    note="Differential against the library's own fresh build; only valid method sets; canonical set order. Sampling.",
    technique="deterministic simulation: seeded operation histories against an executable method-table reference model and fresh-build oracle",
)

CHECKS["C16"] = dict(
    category="exploration",
    text="Seeded histories (3-15 operations) over graphs of up to 6 functions: roots, copy, variant, mixin combination, "
         "add_mixins, register / unregister on any node, calls on any node at any point, with and without linkback. "
         "A derivation-graph model decides, per modification, must-refuse / must-succeed / undetermined from the routes to "
         "used descendants, and gives each node's effective method set; after every modification every used node, and at the end "
         "every node, must equal a plain fresh function registering that set (with by-name recursion: paired with a fresh copy "
         "of the function the name denotes).",
    design_ref="DESIGN.md 4/C16",
    note="One method per (types, priority) per node; mixin parents with disjoint keys; mixed linkback/plain routes accept either "
         "verdict. Differential against the library's own fresh build. Sampling.",
    technique="deterministic simulation: seeded operation histories over a derivation graph against an executable graph model and fresh-build oracle",
)

CHECKS["C04"] = dict(
    category="exploration",
    text="Seeded call histories (1-40 operations, shapes: random, failing-calls-first, a-b-a pairs, forward-reverse-forward) "
         "over worlds with static, union, intersection, dependent, Literal, type[...], keyword and hook annotations and bodies "
         "that delegate through recurse / call_next / f.next. Every operation must equal the same call made first on a fresh "
         "function. A separate fault-injecting batch interrupts (or fails a hook in) one call of the history at a seeded step; "
         "only that call is exempt. Each call is also compared with the same call made first on a fresh function in an untouched "
         "process image (per-worker fork server), some histories run to a second function of the same module, contain a flood of "
         "first-time types, or are preceded by a ghost world (same class names, other relations) that dies first (address reuse).",
    design_ref="DESIGN.md 4/C04",
    note="Differential against the library's own first call on a fresh function; canonical set order. Sampling; cache-state "
         "abstraction counts reported as reach measure.",
    technique="deterministic simulation: seeded call histories with mid-call fault injection against a fresh-function oracle",
)
CHECKS["C20"] = dict(
    category="exploration",
    text="Seeded histories: warm-up of every successful corpus call, then 5-40 operations mixing monitored repeats with "
         "disturbances (failing calls of other combinations, calls interrupted at a seeded step or hit by a hook failure, resolve, "
         "display_resolution, introspection, deriving children, refused registrations, unrelated ABC / generic registrations, a flood "
         "of first-time types, a fork of the process, register/unregister followed by one allowed re-warm), also with the function "
         "being a linked child, and a threaded variant under the C19 scheduler. During each repeat no user hook counter may "
         "move and the tracer must see no call of typeorder / subclasscheck / sort_types / MultiTypeMap.mro / resolve / "
         "TypeMap.__missing__.",
    design_ref="DESIGN.md 4/C20",
    note="Hook types kept out of value-dependent combinators; dict misses that compute nothing are allowed; monitor points "
         "identified by code object at start-up (reported if a refactor removes one). Sampling.",
    technique="deterministic simulation: seeded call/fault histories with a trace-function resolution-activity monitor and hook invocation counters",
)

PENDING = {p: "check under construction in this session; will be claimed (see DESIGN.md section 0)" for p in ()}


def main():
    hooks_commits = subprocess.run(
        ["git", "-C", "/repo", "log", "--format=%H %s", "--grep=^verif hook"],
        capture_output=True, text=True).stdout.strip().splitlines()
    m = {
        "version": 1,
        "setup_cmd": "/venv/bin/python /verif/tools/setup_check.py",
        "hooks": {
            "guard": "OVLD_VERIF",
            "enable": "environment variable OVLD_VERIF=1 (set by sim/bootstrap.py when a check re-execs itself); pure Python, no build step",
            "baseline_off_cmd": "/venv/bin/python /verif/tools/baseline.py",
            "source_commits": [l.split()[0] for l in hooks_commits],
            "add_only": True,
        },
        "engines": [{
            "name": "ovld-sim", "path": "/verif/sim",
            "serves_properties": sorted(CHECKS),
            "kind_free_text": "seeded deterministic simulator: sys.settrace logical clock, crash-point injection, "
                              "baton-passing thread scheduler, iteration-order seam, fresh-build reference oracles",
        }],
        "checks": [],
        "not_applicable": [],
        "notes": "See DESIGN.md. Exit codes: 0 held, 1 violation (VIOLATION line + replay file), 2 harness error.",
    }
    for pid, c in sorted(CHECKS.items()):
        m["checks"].append({
            "property_id": pid,
            "quick_cmd": f"./check {pid} --tier quick",
            "thorough_cmd": f"./check {pid} --tier thorough",
            "evidence_file": f"/verif/evidence/{pid}.json",
            "replay_cmd_template": f"./check {pid} --replay {{path}}",
            "engine": "ovld-sim",
            "level_claimed": {"category": c["category"], "text": c["text"], "design_ref": c["design_ref"]},
            "level_note": c["note"],
            "technique": c["technique"],
        })
    for pid, r in sorted({**NA, **PENDING}.items()):
        if pid not in CHECKS:
            m["not_applicable"].append({"property_id": pid, "reason": r})
    with open(os.path.join(HERE, "MANIFEST.json"), "w") as fh:
        json.dump(m, fh, indent=1)
    print("wrote MANIFEST.json:", len(m["checks"]), "checks,", len(m["not_applicable"]), "not applicable")


if __name__ == "__main__":
    main()
