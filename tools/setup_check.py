#!/venv/bin/python
"""setup_cmd: nothing to build (pure Python); verify the interpreter and that ovld imports from /repo/src."""
import os
import subprocess
import sys

env = dict(os.environ, PYTHONPATH="/repo/src", OVLD_VERIF="1")
p = subprocess.run(
    [sys.executable, "-c",
     "import ovld, sys; from ovld import _verif; assert _verif.ACTIVE; "
     "assert ovld.__file__.startswith('/repo/src'), ovld.__file__; print('ovld from', ovld.__file__, sys.version.split()[0])"],
    env=env, capture_output=True, text=True)
print(p.stdout, p.stderr)
os.makedirs("/verif/evidence", exist_ok=True)
os.makedirs("/verif/replays", exist_ok=True)
sys.exit(p.returncode)
