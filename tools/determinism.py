#!/venv/bin/python
"""Large determinism self-test: sample N jobs of each check's quick tier and run them in fresh
interpreters under different PYTHONHASHSEEDs, with ASLR on and off; all digests must agree.

usage: tools/determinism.py [N=24] [C04 C05 ...]"""
import importlib
import json
import os
import random
import subprocess
import sys

sys.path.insert(0, "/verif")
from sim.bootstrap import ensure_env  # noqa: E402

PROPS = {"C04": "c04", "C05": "c05", "C06": "c06", "C16": "c16", "C18": "c18", "C19": "c19", "C20": "c20"}


def digests(pid, jobs, hashseed, aslr):
    env = dict(os.environ)
    for k in ("VERIF_BOOTSTRAPPED", "PYTHONHASHSEED"):
        env.pop(k, None)
    env["VERIF_HASHSEED"] = str(hashseed)
    env["VERIF_ASLR"] = aslr
    p = subprocess.run([sys.executable, "/verif/check.py", pid, "--digest-jobs", json.dumps(jobs)],
                       env=env, capture_output=True, text=True, cwd="/verif")
    for line in p.stdout.splitlines():
        if line.startswith("DIGESTS "):
            return json.loads(line[8:])
    raise RuntimeError(p.stdout[-500:] + p.stderr[-1500:])


def main():
    ensure_env()
    args = [a for a in sys.argv[1:]]
    n = int(args[0]) if args and args[0].isdigit() else 24
    pids = [a for a in args if a in PROPS] or list(PROPS)
    bad = 0
    for pid in pids:
        prop = importlib.import_module(f"sim.props.{PROPS[pid]}")
        alljobs = []
        for j in prop.jobs("quick", 0):
            alljobs.append(j)
            if len(alljobs) > 3000:
                break
        rng = random.Random(1234)
        jobs = rng.sample(alljobs, min(n, len(alljobs)))
        if pid == "C18":
            jobs = [dict(j, stride=max(j["stride"], 64)) for j in jobs]  # keep it short
        if pid == "C06":
            jobs = [j for j in jobs if j.get("kind") != "env"]
        ref = digests(pid, jobs, 0, "off")
        for hs, aslr in ((0, "on"), (31337, "off"), (99, "on")):
            got = digests(pid, jobs, hs, aslr)
            diff = [i for i, (a, b) in enumerate(zip(ref, got)) if a != b]
            if diff:
                bad += 1
                print(f"{pid}: NONDETERMINISM hashseed={hs} aslr={aslr}: jobs {[jobs[i] for i in diff[:3]]}")
        print(f"{pid}: {len(jobs)} jobs x 4 interpreter configurations compared")
    print("DETERMINISM", "FAILED" if bad else "OK")
    return 1 if bad else 0


if __name__ == "__main__":
    sys.exit(main())
