#!/venv/bin/python
"""Markdown table of the seeded changes and which checks caught them (from seeded/*/result.json)."""
import glob
import json
import os

ALL = ["C04", "C05", "C06", "C16", "C18", "C19", "C20"]
rows = []
for d in sorted(x for x in glob.glob("/verif/seeded/*") if os.path.isdir(x)):
    try:
        meta = json.load(open(os.path.join(d, "meta.json")))
        res = json.load(open(os.path.join(d, "result.json")))
    except FileNotFoundError:
        continue
    cells = []
    for c in ALL:
        v = res.get("checks", {}).get(c)
        if v is None:
            cells.append("")
        elif v["exit"] == 1:
            cells.append("**caught**")
        elif v["exit"] == 0:
            cells.append("-")
        else:
            cells.append(f"exit {v['exit']}")
    origin = meta.get("origin") or "sub-agent"
    rows.append((os.path.basename(d), meta.get("property"), "yes" if res.get("valid_mutant") else "NO",
                 cells, (meta.get("summary") or "")[:110].replace("|", "/"), origin[:30]))
print("| change | breaks | valid | " + " | ".join(ALL) + " | summary |")
print("|---|---|---|" + "---|" * len(ALL) + "---|")
for name, prop, valid, cells, summ, origin in rows:
    print(f"| {name} | {prop} | {valid} | " + " | ".join(cells) + f" | {summ} |")
