#!/venv/bin/python
"""Fold the evaluation record (result.json) into each seeded change's meta.json ("what was run")."""
import glob
import json
import os

for d in sorted(x for x in glob.glob("/verif/seeded/*") if os.path.isdir(x)):
    mp, rp = os.path.join(d, "meta.json"), os.path.join(d, "result.json")
    if not (os.path.exists(mp) and os.path.exists(rp)):
        continue
    meta, res = json.load(open(mp)), json.load(open(rp))
    meta["confirmed"] = {
        "how": "tools/run_mutant.py: scratch worktree of /repo HEAD, git apply patch.diff, pinned test suite "
               "(BASELINE.json stable_pass all passing), demo.py on clean and on patched tree, then the listed "
               "checks with VERIF_REPO=<scratch tree>",
        "patch_applies": res.get("patch_applies"),
        "pinned_tests_still_pass": res.get("tests_missing") == [],
        "demo_exit_clean_tree": res.get("demo_clean_exit"),
        "demo_exit_patched_tree": res.get("demo_mutant_exit"),
        "checks_run": {c: v["exit"] for c, v in res.get("checks", {}).items()},
        "caught_by": res.get("caught_by"),
    }
    with open(mp, "w") as fh:
        json.dump(meta, fh, indent=1)
print("done")
