#!/venv/bin/python
"""Run the repository's pinned test suite and compare with BASELINE.json.

usage: baseline.py [--guard-on]      exit 0 iff every stable_pass test passes.
"""
import json
import os
import subprocess
import sys
import tempfile
import xml.etree.ElementTree as ET


def main():
    guard_on = "--guard-on" in sys.argv
    base = json.load(open("/root/.vp/BASELINE.json")) if os.path.exists(
        "/root/.vp/BASELINE.json"
    ) else None
    env = dict(os.environ)
    env.pop("OVLD_VERIF", None)
    if guard_on:
        env["OVLD_VERIF"] = "1"
    with tempfile.TemporaryDirectory() as td:
        xml = os.path.join(td, "junit.xml")
        cmd = [
            "/venv/bin/python", "-m", "pytest", "-ra", "-q", "-p",
            "no:cacheprovider", "--timeout=900",
            "--continue-on-collection-errors", f"--junitxml={xml}",
        ]
        p = subprocess.run(cmd, cwd="/repo", env=env, capture_output=True, text=True)
        passed = set()
        for tc in ET.parse(xml).getroot().iter("testcase"):
            if not any(ch.tag in ("failure", "error", "skipped") for ch in tc):
                passed.add(f"{tc.get('classname')}::{tc.get('name')}")
    if base is None:
        print(f"passed={len(passed)} (no BASELINE.json to compare)")
        return 0 if len(passed) >= 143 else 1
    want = set(base["stable_pass"])
    missing = sorted(want - passed)
    print(f"guard={'on' if guard_on else 'off'} passed={len(passed)} "
          f"baseline={len(want)} missing={len(missing)}")
    for m in missing:
        print("MISSING", m)
    if missing:
        print(p.stdout[-3000:])
    return 1 if missing else 0


if __name__ == "__main__":
    sys.exit(main())
