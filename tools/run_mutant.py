#!/venv/bin/python
"""Evaluate a seeded change: tools/run_mutant.py <dir with patch.diff, demo.py, meta.json> [--checks C04,C05|all] [--tier quick]

In a scratch worktree of /repo's HEAD: apply the patch, confirm the pinned tests still pass, confirm the
demonstration fails with the change and passes without it, run the chosen checks against the scratch tree
(VERIF_REPO), record everything in <dir>/result.json, and remove the worktree."""
import json
import os
import shutil
import subprocess
import sys
import tempfile
import time
import xml.etree.ElementTree as ET

ALL = ["C04", "C05", "C06", "C16", "C18", "C19", "C20"]


def sh(cmd, **kw):
    return subprocess.run(cmd, capture_output=True, text=True, **kw)


def run_tests(wt):
    base = json.load(open("/root/.vp/BASELINE.json"))
    with tempfile.TemporaryDirectory() as td:
        xml = os.path.join(td, "j.xml")
        env = dict(os.environ, PYTHONPATH=os.path.join(wt, "src"))
        env.pop("OVLD_VERIF", None)
        sh(["/venv/bin/python", "-m", "pytest", "-q", "-p", "no:cacheprovider", "--timeout=900",
            "--continue-on-collection-errors", f"--junitxml={xml}"], cwd=wt, env=env)
        passed = set()
        for tc in ET.parse(xml).getroot().iter("testcase"):
            if not any(ch.tag in ("failure", "error", "skipped") for ch in tc):
                passed.add(f"{tc.get('classname')}::{tc.get('name')}")
    missing = sorted(set(base["stable_pass"]) - passed)
    return missing


def main():
    d = os.path.abspath(sys.argv[1])
    checks = None
    tier = "quick"
    for i, a in enumerate(sys.argv):
        if a == "--checks":
            checks = ALL if sys.argv[i + 1] == "all" else sys.argv[i + 1].split(",")
        if a == "--tier":
            tier = sys.argv[i + 1]
    meta = json.load(open(os.path.join(d, "meta.json")))
    if checks is None:
        checks = [meta["property"]]
    wt = tempfile.mkdtemp(prefix="mw_", dir="/tmp")
    os.rmdir(wt)
    res = {"dir": d, "property": meta.get("property"), "checks": {}}
    try:
        r = sh(["git", "-C", "/repo", "worktree", "add", "-q", "--detach", wt, "HEAD"])
        assert r.returncode == 0, r.stderr
        demo = os.path.join(d, "demo.py")
        env = dict(os.environ, PYTHONPATH=os.path.join(wt, "src"))
        r0 = sh(["/venv/bin/python", demo], env=env, timeout=300)
        res["demo_clean_exit"] = r0.returncode
        r = sh(["git", "-C", wt, "apply", os.path.join(d, "patch.diff")])
        if r.returncode != 0:
            # written against an earlier HEAD (before later repairs): fall back to a 3-way merge
            r = sh(["git", "-C", wt, "apply", "--3way", os.path.join(d, "patch.diff")])
            res["patch_applied_3way"] = r.returncode == 0
        res["patch_applies"] = r.returncode == 0
        if r.returncode != 0:
            res["patch_error"] = r.stderr[-500:]
        else:
            res["tests_missing"] = run_tests(wt)
            r1 = sh(["/venv/bin/python", demo], env=env, timeout=300)
            res["demo_mutant_exit"] = r1.returncode
            res["demo_mutant_out"] = (r1.stdout + r1.stderr)[-400:]
            for c in checks:
                with tempfile.TemporaryDirectory() as td:
                    cenv = dict(os.environ, VERIF_REPO=wt, VERIF_EVIDENCE_DIR=td,
                                VERIF_REPLAY_DIR=os.path.join(td, "replays"))
                    for k in ("VERIF_BOOTSTRAPPED", "PYTHONHASHSEED", "PYTHONPATH"):
                        cenv.pop(k, None)
                    t0 = time.time()
                    rc = sh(["/venv/bin/python", "/verif/check.py", c, "--tier", tier, "--no-selftest"],
                            env=cenv, cwd="/verif", timeout=3600)
                    lines = [ln for ln in rc.stdout.splitlines()
                             if ln.startswith(("VIOLATION", "violation class", "KNOWN-FINDING", "done", "HARNESS"))]
                    res["checks"][c] = {"exit": rc.returncode, "wall_s": round(time.time() - t0, 1),
                                        "lines": [ln[:400] for ln in lines[:8]]}
    finally:
        sh(["git", "-C", "/repo", "worktree", "remove", "--force", wt])
        shutil.rmtree(wt, ignore_errors=True)
    res["valid_mutant"] = bool(res.get("patch_applies") and not res.get("tests_missing")
                               and res.get("demo_clean_exit") == 0 and res.get("demo_mutant_exit") not in (0, None))
    res["caught_by"] = [c for c, v in res["checks"].items() if v["exit"] == 1]
    with open(os.path.join(d, "result.json"), "w") as fh:
        json.dump(res, fh, indent=1)
    print(json.dumps({k: res[k] for k in ("property", "valid_mutant", "caught_by", "tests_missing") if k in res}))
    for c, v in res["checks"].items():
        print(c, "exit", v["exit"], v["wall_s"], "s")
        for ln in v["lines"][:3]:
            print("   ", ln[:300])


if __name__ == "__main__":
    main()
