#!/venv/bin/python
"""Entry point: ./check <ID> [--tier quick|thorough] [--replay FILE]"""
import importlib
import os
import sys

sys.path.insert(0, os.path.dirname(os.path.abspath(__file__)))
from sim.bootstrap import ensure_env  # noqa: E402

PROPS = {"C04": "c04", "C05": "c05", "C06": "c06", "C16": "c16", "C18": "c18",
         "C19": "c19", "C20": "c20"}


def main():
    if len(sys.argv) < 2 or sys.argv[1] not in PROPS:
        print("usage: check <" + "|".join(PROPS) + "> [--tier quick|thorough] [--replay FILE]")
        return 2
    ensure_env()
    from sim import runner

    prop = importlib.import_module(f"sim.props.{PROPS[sys.argv[1]]}")
    return runner.main(prop, sys.argv[2:])


if __name__ == "__main__":
    sys.exit(main())
